/-
  SAMI inline styles: what one declaration does to the italics / underline / bold flags (`Model/SamiInline.lean`), and the fold over
  the declarations of a style attribute.
-/
import PcVerif.Model.SamiInline
set_option linter.unusedSimpArgs false
namespace PcVerif.SamiInline
open PcVerif PcVerif.Str

/-- the declaration says `prop: value` (the value up to surrounding white space) -/
def says (prop value : String) (d : Str) : Bool :=
  match parse d with
  | some (p, v) => decide (p = prop.toList) && decide (v = value.toList)
  | none => false

theorem declPV_italics (s : St) (p v : Str) :
    (declPV s p v).italics = (s.italics || (decide (p = "font-style".toList) && decide (v = "italic".toList))) := by
  unfold declPV
  by_cases h2 : p = "font-style".toList
  · subst h2
    have b0 : ¬ ("font-style".toList = "text-align".toList) := by decide
    have b1 : ¬ ("font-style".toList = "font-family".toList) := by decide
    have b2 : ¬ ("font-style".toList = "font-size".toList) := by decide
    have b3 : ¬ ("font-style".toList = "text-decoration".toList) := by decide
    have b4 : ¬ ("font-style".toList = "font-weight".toList) := by decide
    have b5 : ¬ ("font-style".toList = "lang".toList) := by decide
    have b6 : ¬ ("font-style".toList = "color".toList) := by decide
    simp only [b0, b1, b2, b3, b4, b5, b6, if_false, true_and, false_and, decide_true, Bool.true_and]
    by_cases hv : v = "italic".toList
    · simp only [hv, if_true, decide_true, Bool.or_true]
    · simp only [hv, if_false, b0, b1, b2, b3, b4, b5, b6, false_and, and_false, decide_false, Bool.or_false]
  · simp only [h2, false_and, decide_false, Bool.false_and, Bool.or_false, if_false]
    repeat' split
    all_goals rfl

theorem declPV_underline (s : St) (p v : Str) :
    (declPV s p v).underline = (s.underline || (decide (p = "text-decoration".toList) && decide (v = "underline".toList))) := by
  unfold declPV
  by_cases h2 : p = "text-decoration".toList
  · subst h2
    have b0 : ¬ ("text-decoration".toList = "text-align".toList) := by decide
    have b1 : ¬ ("text-decoration".toList = "font-family".toList) := by decide
    have b2 : ¬ ("text-decoration".toList = "font-size".toList) := by decide
    have b3 : ¬ ("text-decoration".toList = "font-style".toList) := by decide
    have b4 : ¬ ("text-decoration".toList = "font-weight".toList) := by decide
    have b5 : ¬ ("text-decoration".toList = "lang".toList) := by decide
    have b6 : ¬ ("text-decoration".toList = "color".toList) := by decide
    simp only [b0, b1, b2, b3, b4, b5, b6, if_false, true_and, false_and, decide_true, Bool.true_and]
    by_cases hv : v = "underline".toList
    · simp only [hv, if_true, decide_true, Bool.or_true]
    · simp only [hv, if_false, b0, b1, b2, b3, b4, b5, b6, false_and, and_false, decide_false, Bool.or_false]
  · simp only [h2, false_and, decide_false, Bool.false_and, Bool.or_false, if_false]
    repeat' split
    all_goals rfl

theorem declPV_bold (s : St) (p v : Str) :
    (declPV s p v).bold = (s.bold || (decide (p = "font-weight".toList) && decide (v = "bold".toList))) := by
  unfold declPV
  by_cases h2 : p = "font-weight".toList
  · subst h2
    have b0 : ¬ ("font-weight".toList = "text-align".toList) := by decide
    have b1 : ¬ ("font-weight".toList = "font-family".toList) := by decide
    have b2 : ¬ ("font-weight".toList = "font-size".toList) := by decide
    have b3 : ¬ ("font-weight".toList = "font-style".toList) := by decide
    have b4 : ¬ ("font-weight".toList = "text-decoration".toList) := by decide
    have b5 : ¬ ("font-weight".toList = "lang".toList) := by decide
    have b6 : ¬ ("font-weight".toList = "color".toList) := by decide
    simp only [b0, b1, b2, b3, b4, b5, b6, if_false, true_and, false_and, decide_true, Bool.true_and]
    by_cases hv : v = "bold".toList
    · simp only [hv, if_true, decide_true, Bool.or_true]
    · simp only [hv, if_false, b0, b1, b2, b3, b4, b5, b6, false_and, and_false, decide_false, Bool.or_false]
  · simp only [h2, false_and, decide_false, Bool.false_and, Bool.or_false, if_false]
    repeat' split
    all_goals rfl

theorem decl_italics (s : St) (d : Str) : (decl s d).italics = (s.italics || says "font-style" "italic" d) := by
  unfold decl says
  cases parse d with
  | none => simp
  | some pv => exact declPV_italics s pv.1 pv.2

theorem decl_underline (s : St) (d : Str) : (decl s d).underline = (s.underline || says "text-decoration" "underline" d) := by
  unfold decl says
  cases parse d with
  | none => simp
  | some pv => exact declPV_underline s pv.1 pv.2

theorem decl_bold (s : St) (d : Str) : (decl s d).bold = (s.bold || says "font-weight" "bold" d) := by
  unfold decl says
  cases parse d with
  | none => simp
  | some pv => exact declPV_bold s pv.1 pv.2

theorem foldl_flag (flag : St → Bool) (q : Str → Bool) (h : ∀ s d, flag (decl s d) = (flag s || q d)) (ds : List Str) (s : St) :
    flag (ds.foldl decl s) = (flag s || ds.any q) := by
  induction ds generalizing s with
  | nil => simp
  | cons d ds ih => simp only [List.foldl_cons, ih, h, List.any_cons, Bool.or_assoc]

end PcVerif.SamiInline
