/-
  C06 / C17: the END times of the captions re-read from a written file in which every caption has its own clearing line and the
  captions are spaced at least five frames apart.
-/
import PcVerif.Lemmas.PopOnTimes
namespace PcVerif.SccW
open Str Scc PcVerif.Props.C16

/-- a stored caption with both its times -/
def view4 (c : Cap) : List CNode × Option Pos × Rat × Rat := (c.nodes, c.layout, c.start, c.stop)

/-- storing a written caption when the previous one ended clearly earlier: one caption is appended with the given start and end,
    nothing else changes -/
theorem store_written4 (S : Stash) (c : Creator) (a b : Rat) (p : Pos) (l : Str) (ls : List Str)
    (hc : c.coll = bufNodes p (l :: ls)) (ht : ∀ m ∈ l :: ls, Tidy m)
    (hgap : ∀ li lc, S.lastBatch.getLast? = some li → S.stash[li]? = some lc → lc.stop ≠ 0 ∧ 5 * Scc.frameUs + 1 ≤ a - lc.stop) :
    (store S c a b).stash = S.stash ++ [{ start := a, stop := b, nodes := capNodes p (l :: ls), layout := some p }] ∧
    (store S c a b).lastBatch = [S.stash.length] := by
  have hne : c.isEmpty = false := isEmpty_bufNodes c p l ls (ht l (by simp)).1 hc
  unfold store
  simp only [hne, Bool.false_eq_true, if_false]
  rw [hc, formatItalics_bufNodes p l ls ht, toCaps_bufNodes a b p l ls (fun m hm => (ht m hm).1)]
  have hf : ([{ start := a, stop := b, nodes := capNodes p (l :: ls), layout := some p }] : List Cap).filter (fun cp => !cp.nodes.isEmpty)
      = [{ start := a, stop := b, nodes := capNodes p (l :: ls), layout := some p }] := by
    simp [capNodes]
  rw [hf]
  simp only
  cases hlb : S.lastBatch.getLast? with
  | none => simp [List.range']
  | some li =>
    simp only
    cases hs : S.stash[li]? with
    | none => simp [List.range']
    | some lc =>
      simp only
      obtain ⟨h1, h2⟩ := hgap li lc hlb hs
      have hno : ¬ (lc.stop = 0 ∨ a - lc.stop < 5 * Scc.frameUs + 1) := by
        intro h
        rcases h with h | h
        · exact h1 h
        · linarith
      rw [if_neg hno]
      simp [List.range']

/-- a re-read caption with both its times -/
def cap4 (x : List Str × Rat × Rat) : Cap :=
  { start := x.2.1, stop := x.2.2, nodes := capNodes (16 - x.1.length, 0) x.1, layout := some (16 - x.1.length, 0) }

/-- the reader between two captions of a file in which every caption is cleared by a line of its own: everything read so far
    is stored, nothing waits -/
structure Track4 (r : Reader) (done : List (List Str × Rat × Rat)) : Prop where
  lastCmd : r.lastCmd = ""
  active : r.active = .pop
  queue : r.queue = []
  stash : r.S.stash = done.map cap4
  batch : r.S.lastBatch = (if done.isEmpty then [] else [done.length - 1])

theorem fileCap_track4 (c : FileCap) (hc : c.ok) (hg : GoodLines c.lines) (off tE tC : Rat) (tclr : Str) (hclr : c.clear = some tclr)
    (hE : c.eoc off = some tE) (hC : timeOf (String.ofList tclr) 0 off = some tC)
    (r : Reader) (done : List (List Str × Rat × Rat)) (hr : Track4 r done) (hoff : r.off = off)
    (hgap : ∀ x, done.getLast? = some x → x.2.2 ≠ 0 ∧ 5 * Scc.frameUs + 1 ≤ tE - x.2.2) :
    Track4 (c.fileLines.foldl translateLine r) (done ++ [(c.lines, tE, tC)]) ∧ (c.fileLines.foldl translateLine r).off = off := by
  obtain ⟨h1, h2, h3, h4⟩ := hc
  obtain ⟨l0, a0, q0, st0, b0⟩ := hr
  obtain ⟨hne, _, hgl⟩ := hg
  obtain ⟨l, ls, hls⟩ : ∃ l ls, c.lines = l :: ls := by
    cases h : c.lines with
    | nil => exact absurd h hne
    | cons a b => exact ⟨a, b, rfl⟩
  have hb : ∀ m ∈ l :: ls, m ≠ [] ∧ ∀ x ∈ m, Basic x := by
    intro m hm
    have := hgl m (by rw [hls]; exact hm)
    exact ⟨this.1.1, this.2⟩
  have hn : ls.length + 1 ≤ 15 := by have := h2; rw [hls] at this; simpa using this
  -- the caption's own line: the caption is queued, nothing is stored yet
  have step1 : ∃ r1, translateLine r (c.ts ++ '\t' :: joinWords (captionWords c.lines)) = r1 ∧ r1.lastCmd = "" ∧ r1.active = .pop ∧
      r1.off = off ∧ r1.S = r.S ∧ ∃ cc, r1.queue = [(cc, tE)] ∧ cc.coll = bufNodes (16 - c.lines.length, 0) c.lines := by
    rw [translateLine_words r c.ts _ h1 (by simp [captionWords]) (captionWords_hex c.lines h2 h3)]
    have hE' : timeOf ({ r with tc := String.ofList c.ts, frames := 0 } : Reader).tc
        (({ r with tc := String.ofList c.ts, frames := 0 } : Reader).frames + ((rowsWords (16 - (ls.length + 1)) (l :: ls)).length + 6))
        ({ r with tc := String.ofList c.ts, frames := 0 } : Reader).off = some tE := by
      show timeOf (String.ofList c.ts) (0 + _) r.off = some tE
      rw [Nat.zero_add, hoff]
      have := hE
      unfold FileCap.eoc at this
      rw [hls] at this
      simpa using this
    obtain ⟨r', e, l', a', _, cc, t1, t2, q', c', s'⟩ := caption_exact_T l ls [] { r with tc := String.ofList c.ts, frames := 0 } hn hb
      (Or.inl l0) a0 tE hE'
    rw [List.append_nil] at e
    obtain ⟨_, _, o'⟩ := state_after_prefix { r with tc := String.ofList c.ts, frames := 0 } r' (captionWords (l :: ls)) [] (by rw [List.append_nil]; exact e)
    rw [hls, e]
    simp only [words]
    refine ⟨r', rfl, l', a', by rw [o']; exact hoff, ?_, cc, ?_, by rw [c']; simp⟩
    · rw [s']
      show popS (popS r.S r.queue t1) r.queue.tail t2 = r.S
      rw [q0]; rfl
    · rw [q']
      show r.queue.tail.tail ++ _ = _
      rw [q0]; rfl
  obtain ⟨r1, e1, l1, a1, o1, s1, cc, q1, c1⟩ := step1
  unfold FileCap.fileLines
  simp only [List.foldl_append, List.foldl_cons, List.foldl_nil, e1, translateLine_empty, hclr]
  have hx : ∀ w ∈ ["942c", "942c"], HexWord w := by
    intro w hw; apply hexWord_of_B; revert w; decide
  rw [translateLine_words r1 tclr _ (h4 tclr hclr) (by simp) hx]
  generalize hrs : ({ r1 with tc := String.ofList tclr, frames := 0 } : Reader) = rs
  have ls' : rs.lastCmd = "" := by rw [← hrs]; exact l1
  have as' : rs.active = .pop := by rw [← hrs]; exact a1
  have qs' : rs.queue = [(cc, tE)] := by rw [← hrs]; exact q1
  have ss' : rs.S = r.S := by rw [← hrs]; exact s1
  have os' : rs.off = off := by rw [← hrs]; exact o1
  have tcs : rs.tc = String.ofList tclr := by rw [← hrs]
  have frs : rs.frames = 0 := by rw [← hrs]
  have hfa : (firstCopy rs "942c").active = .pop := as'
  obtain ⟨d1, d2, d3, d4, d5⟩ := command_edm_exact (firstCopy rs "942c") (some "942c") hfa
  have cS := command_edm_S (firstCopy rs "942c") (some "942c") hfa
  obtain ⟨r2, e2, l2, a2, s2, q2, p2⟩ := ctl_pair' rs "942c" [] ctl_fixed.2.2.1 (Or.inl ls') (by rw [d2]; rfl)
  obtain ⟨_, _, o2⟩ := state_after_prefix rs r2 ["942c", "942c"] [] e2
  have hnow : (firstCopy rs "942c").now.2 = tC := by
    apply now_of_timeOf
    show timeOf rs.tc rs.frames rs.off = some tC
    rw [tcs, frs, os']; exact hC
  rw [e2]
  simp only [words]
  -- the store
  have hS2 : r2.S = store r.S cc tE tC := by
    rw [s2, cS, hnow]
    show popS rs.S rs.queue tC = _
    rw [ss', qs']; rfl
  have hgood : ∀ m ∈ l :: ls, Tidy m := fun m hm => (hgl m (by rw [hls]; exact hm)).1
  have hcc : cc.coll = bufNodes (16 - c.lines.length, 0) (l :: ls) := by rw [c1, hls]
  obtain ⟨w1, w2⟩ := store_written4 r.S cc tE tC (16 - c.lines.length, 0) l ls hcc hgood (by
    intro li lc hli hlc
    rw [b0] at hli
    cases hd : done with
    | nil => simp [hd] at hli
    | cons d0 ds =>
      have hne' : done.isEmpty = false := by simp [hd]
      rw [hne'] at hli
      simp only [Bool.false_eq_true, if_false, List.getLast?_singleton, Option.some.injEq] at hli
      rw [st0, ← hli] at hlc
      have hlast : done.getLast? = some (done.getLast (by simp [hd])) := List.getLast?_eq_some_getLast _
      have hidx : (done.map cap4)[done.length - 1]? = some (cap4 (done.getLast (by simp [hd]))) := by
        rw [List.getElem?_map, List.getLast_eq_getElem]
        simp [hd]
      rw [hidx] at hlc
      have := hgap _ hlast
      rw [← Option.some.inj hlc]
      exact this)
  refine ⟨⟨l2, by rw [a2, d1], by rw [q2, d5]; show rs.queue.tail = []; rw [qs']; rfl, ?_, ?_⟩, by rw [o2]; exact os'⟩
  · rw [hS2, w1, st0]
    simp [cap4, hls]
  · rw [hS2, w2, st0]
    simp

/-- every caption begins at least five frames (and a microsecond) after the end of the one before, and no end is 0 -/
def SpacedFrom : Option Rat → List (FileCap × Rat × Rat) → Prop
  | _, [] => True
  | p, a :: rest => (∀ s, p = some s → s ≠ 0 ∧ 5 * Scc.frameUs + 1 ≤ a.2.1 - s) ∧ SpacedFrom (some a.2.2) rest

/-- a caption of the file with the instants of its End-Of-Caption word and of its clearing line -/
def Timed (off : Rat) (x : FileCap × Rat × Rat) : Prop :=
  x.1.ok ∧ GoodLines x.1.lines ∧ x.1.eoc off = some x.2.1 ∧ ∃ tclr, x.1.clear = some tclr ∧ timeOf (String.ofList tclr) 0 off = some x.2.2

theorem file_track4 (off : Rat) : ∀ (xs : List (FileCap × Rat × Rat)), (∀ x ∈ xs, Timed off x) →
    ∀ (r : Reader) (done : List (List Str × Rat × Rat)), Track4 r done → r.off = off →
    SpacedFrom (done.getLast?.map (·.2.2)) xs →
    Track4 ((xs.flatMap fun x => x.1.fileLines).foldl translateLine r) (done ++ xs.map (fun x => (x.1.lines, x.2.1, x.2.2))) := by
  intro xs
  induction xs with
  | nil => intro _ r done hr _ _; simpa using hr
  | cons x xs ih =>
    intro h r done hr ho hsp
    obtain ⟨hok, hg, hE, tclr, hclr, hC⟩ := h x (by simp)
    obtain ⟨hs1, hs2⟩ := hsp
    obtain ⟨t1, o1⟩ := fileCap_track4 x.1 hok hg off x.2.1 x.2.2 tclr hclr hE hC r done hr ho (by
      intro y hy
      exact hs1 y.2.2 (by rw [hy]; rfl))
    have hlast : (done ++ [(x.1.lines, x.2.1, x.2.2)]).getLast?.map (·.2.2) = some x.2.2 := by simp
    have t2 := ih (fun y hy => h y (by simp [hy])) _ _ t1 o1 (by rw [hlast]; exact hs2)
    simp only [List.flatMap_cons, List.foldl_append, List.map_cons]
    simpa [List.append_assoc] using t2

/-- **C06 / C17 (start and end of every re-read caption).** for a written file in which every caption has a clearing line of its
    own and begins at least five frames after the previous one was cleared: the reader model stores exactly the written
    captions, in order — rows as lines, first-row position — each STARTING at the instant of its End-Of-Caption word and ENDING
    at the instant of its clearing line; no caption is retimed, joined or given the default four seconds -/
theorem file_stored4 (xs : List (FileCap × Rat × Rat)) (off : Rat) (h : ∀ x ∈ xs, Timed (off * 1000000) x)
    (hsp : SpacedFrom none xs) :
    (run (fileText (xs.map (·.1))) off).S.stash = xs.map (fun x => cap4 (x.1.lines, x.2.1, x.2.2)) := by
  unfold run fileText
  simp only
  rw [Srt.splitlines_terminated]
  · simp only [List.drop_succ_cons, List.drop_zero, List.foldl_cons, translateLine_empty]
    have h0 : Track4 ({ off := off * 1000000 } : Reader) [] := ⟨rfl, rfl, rfl, rfl, rfl⟩
    have hfl : (xs.map (·.1)).flatMap FileCap.fileLines = xs.flatMap fun x => x.1.fileLines := by
      simp [List.flatMap_map]
    rw [hfl]
    obtain ⟨_, a, q, st, _⟩ := file_track4 (off * 1000000) xs h _ [] h0 rfl (by simpa using hsp)
    generalize (xs.flatMap fun x => x.1.fileLines).foldl translateLine ({ off := off * 1000000 } : Reader) = rf at a q st
    rw [a]
    unfold flush
    simp only [q, List.isEmpty_nil, if_true]
    rw [st]
    simp [List.map_map, Function.comp_def]
  · intro l hl
    simp only [List.mem_cons, List.mem_flatMap, List.mem_map] at hl
    rcases hl with rfl | rfl | ⟨c, ⟨x, hx, rfl⟩, hl⟩
    · intro y hy
      have : ∀ z ∈ Generated.Scc.header.toList, isLineBreak z = false := by decide
      exact this y hy
    · intro y hy; simp at hy
    · exact fileLines_noBreak x.1 (h x hx).1 l hl

end PcVerif.SccW
