/-
  C06: what `_SccTimeTranslator.get_time` computes for a time code `hh:mm:ss:ff` / `hh:mm:ss;ff` and a number of code words.
-/
import PcVerif.Model.Scc.Reader
import PcVerif.Lemmas.MicroDvdRoundTrip
namespace PcVerif.Scc
open Str

theorem map_semicolon_id (s : Str) (h : ';' ∉ s) : s.map (fun c => if c = ';' then ':' else c) = s := by
  induction s with
  | nil => rfl
  | cons c s ih =>
    have hc : c ≠ ';' := fun e => h (by simp [e])
    simp [hc, ih (fun e => h (List.mem_cons_of_mem _ e))]

theorem split_stamp (h m s n : Str) (h1 : ':' ∉ h) (h2 : ':' ∉ m) (h3 : ':' ∉ s) (h4 : ':' ∉ n) :
    splitChar ':' (h ++ ':' :: (m ++ ':' :: (s ++ ':' :: n))) = [h, m, s, n] := by
  rw [splitChar_append_sep ':' h _ h1, splitChar_append_sep ':' m _ h2, splitChar_append_sep ':' s _ h3, splitChar_no_sep ':' n h4]

/-- the value computed from the four fields -/
def stampValue (h m s : Str) (fr : Nat) (k off : Rat) : Rat :=
  clampZero ((((natOfDigits h * 3600 + natOfDigits m * 60 + natOfDigits s : Nat) : Rat) + mkRat fr 30) * k * 1000000 - off)

theorem timeOf_core (h m s ff : Str) (sep : Char) (frames : Nat) (off : Rat)
    (hh : Digits h) (hm : Digits m) (hs : Digits s) (hf : Digits ff) (hl : ff.length = 2)
    (k : Rat)
    (hk : ((h ++ ':' :: (m ++ ':' :: (s ++ sep :: ofNat (natOfDigits ff + frames)))).elem ';') = true → k = 1)
    (hk' : ((h ++ ':' :: (m ++ ':' :: (s ++ sep :: ofNat (natOfDigits ff + frames)))).elem ';') = false → k = mkRat 1001 1000)
    (hmap : (h ++ ':' :: (m ++ ':' :: (s ++ sep :: ofNat (natOfDigits ff + frames)))).map (fun c => if c = ';' then ':' else c)
      = h ++ ':' :: (m ++ ':' :: (s ++ ':' :: ofNat (natOfDigits ff + frames)))) :
    timeOf (String.ofList (h ++ ':' :: (m ++ ':' :: (s ++ sep :: ff)))) frames off
      = some (stampValue h m s (natOfDigits ff + frames) k off) := by
  have c1 : isAsciiDigit ':' = false := by decide
  have hdn := Srt.digits_ofNat (natOfDigits ff + frames)
  unfold timeOf
  simp only [String.toList_ofList]
  have hL2 : h ++ ':' :: (m ++ ':' :: (s ++ sep :: ff)) = (h ++ ':' :: (m ++ ':' :: (s ++ [sep]))) ++ ff := by simp
  have hlen : (h ++ ':' :: (m ++ ':' :: (s ++ sep :: ff))).length = (h ++ ':' :: (m ++ ':' :: (s ++ [sep]))).length + 2 := by
    rw [hL2, List.length_append, hl]
  have hnot : ¬ (h ++ ':' :: (m ++ ':' :: (s ++ sep :: ff))).length < 2 := by omega
  rw [if_neg hnot]
  have htake : (h ++ ':' :: (m ++ ':' :: (s ++ sep :: ff))).take ((h ++ ':' :: (m ++ ':' :: (s ++ sep :: ff))).length - 2)
      = h ++ ':' :: (m ++ ':' :: (s ++ [sep])) := by
    rw [hlen, Nat.add_sub_cancel, hL2, List.take_left']
    rfl
  have hdrop : (h ++ ':' :: (m ++ ':' :: (s ++ sep :: ff))).drop ((h ++ ':' :: (m ++ ':' :: (s ++ sep :: ff))).length - 2) = ff := by
    rw [hlen, Nat.add_sub_cancel, hL2, List.drop_left']
    rfl
  simp only [htake, hdrop, hf.parseNat]
  have hst : h ++ ':' :: (m ++ ':' :: (s ++ [sep])) ++ ofNat (natOfDigits ff + frames)
      = h ++ ':' :: (m ++ ':' :: (s ++ sep :: ofNat (natOfDigits ff + frames))) := by simp
  rw [hst, hmap, split_stamp h m s _ (hh.not_mem _ c1) (hm.not_mem _ c1) (hs.not_mem _ c1) (hdn.not_mem _ c1)]
  simp only [hh.parseNat, hm.parseNat, hs.parseNat, hdn.parseNat, MicroDvd.natOfDigits_ofNat]
  unfold stampValue
  cases he : (h ++ ':' :: (m ++ ':' :: (s ++ sep :: ofNat (natOfDigits ff + frames)))).elem ';' with
  | true => simp [hk he]
  | false => simp [hk' he]

/-- **C06 (the instant of a code word, non-drop-frame).** `h:m:s:ff` plus `frames` code words: the frames are counted at
    30 per second and the whole runs 1001/1000 slower than the clock; minus the offset, never below zero -/
theorem timeOf_nondrop (h m s ff : Str) (frames : Nat) (off : Rat)
    (hh : Digits h) (hm : Digits m) (hs : Digits s) (hf : Digits ff) (hl : ff.length = 2) :
    timeOf (String.ofList (h ++ ':' :: (m ++ ':' :: (s ++ ':' :: ff)))) frames off
      = some (stampValue h m s (natOfDigits ff + frames) (mkRat 1001 1000) off) := by
  have c2 : isAsciiDigit ';' = false := by decide
  have hdn := Srt.digits_ofNat (natOfDigits ff + frames)
  have hno : ';' ∉ h ++ ':' :: (m ++ ':' :: (s ++ ':' :: ofNat (natOfDigits ff + frames))) := by
    simp only [List.mem_append, List.mem_cons, not_or]
    exact ⟨hh.not_mem _ c2, by decide, hm.not_mem _ c2, by decide, hs.not_mem _ c2, by decide, hdn.not_mem _ c2⟩
  apply timeOf_core h m s ff ':' frames off hh hm hs hf hl
  · intro he; exact absurd (by simpa [List.elem_eq_mem] using he) hno
  · intro _; rfl
  · exact map_semicolon_id _ hno

/-- **C06 (the instant of a code word, drop-frame).** `h:m:s;ff`: the same count, at clock speed -/
theorem timeOf_drop (h m s ff : Str) (frames : Nat) (off : Rat)
    (hh : Digits h) (hm : Digits m) (hs : Digits s) (hf : Digits ff) (hl : ff.length = 2) :
    timeOf (String.ofList (h ++ ':' :: (m ++ ':' :: (s ++ ';' :: ff)))) frames off
      = some (stampValue h m s (natOfDigits ff + frames) 1 off) := by
  have c2 : isAsciiDigit ';' = false := by decide
  have hdn := Srt.digits_ofNat (natOfDigits ff + frames)
  apply timeOf_core h m s ff ';' frames off hh hm hs hf hl
  · intro _; rfl
  · intro he
    have hm' : ';' ∈ h ++ ':' :: (m ++ ':' :: (s ++ ';' :: ofNat (natOfDigits ff + frames))) := by simp
    have : (h ++ ':' :: (m ++ ':' :: (s ++ ';' :: ofNat (natOfDigits ff + frames)))).elem ';' = true := by
      rw [List.elem_eq_mem]; exact decide_eq_true hm'
    rw [he] at this; exact absurd this (by decide)
  · simp only [List.map_append, List.map_cons]
    rw [map_semicolon_id h (hh.not_mem _ c2), map_semicolon_id m (hm.not_mem _ c2), map_semicolon_id s (hs.not_mem _ c2),
      map_semicolon_id _ (hdn.not_mem _ c2)]
    simp

end PcVerif.Scc
