import PcVerif.Spec.VttDecode
import PcVerif.Lemmas.StrLemmas
namespace PcVerif.Spec
open Str TextW

theorem vttDecodeAux_drop (k : Nat) (s : Str) : vttDecodeAux k s = vttDecodeAux 0 (s.drop k) := by
  induction s generalizing k with
  | nil => cases k <;> simp [vttDecodeAux]
  | cons c s ih =>
    cases k with
    | zero => simp
    | succ k => simp [vttDecodeAux, ih k]

theorem vttDecode_cons_ne (c : Char) (s : Str) (h : c ≠ '&') : vttDecode (c :: s) = c :: vttDecode s := by
  simp [vttDecode, vttDecodeAux, h]

theorem isPrefix_append (p r : Str) : isPrefix p (p ++ r) = true := by
  simp [isPrefix, dropPrefix?_append]

/-- single-character `replace` is a per-character substitution -/
theorem replace_single (c : Char) (new s : Str) :
    replace [c] new s = s.flatMap (fun x => if x = c then new else [x]) := by
  have aux : ∀ s, replaceAux [c] new 0 s = s.flatMap (fun x => if x = c then new else [x]) := by
    intro s
    induction s with
    | nil => simp [replaceAux]
    | cons x s ih =>
      simp only [replaceAux, isPrefix, dropPrefix?, List.length_cons, List.length_nil, Nat.zero_add, Nat.sub_self]
      by_cases hx : x = c
      · subst hx; simp [ih]
      · simp [hx, ih]
  exact aux s

end PcVerif.Spec

namespace PcVerif.Spec
open Str TextW

def e2 (x : Char) : Str := if x = '&' then "&amp;".toList else if x = '<' then "&lt;".toList else [x]

theorem e2_amp : e2 '&' = '&' :: "amp;".toList := by decide
theorem e2_lt : e2 '<' = '&' :: "lt;".toList := by decide
theorem e2_other (c : Char) (ha : c ≠ '&') (hl : c ≠ '<') : e2 c = [c] := by simp [e2, ha, hl]

theorem encode_amp_lt (s : Str) :
    replace "<".toList "&lt;".toList (replace "&".toList "&amp;".toList s) = s.flatMap e2 := by
  have h1 : "&".toList = ['&'] := by decide
  have h2 : "<".toList = ['<'] := by decide
  rw [h1, h2, replace_single, replace_single, List.flatMap_assoc]
  congr 1
  funext x
  by_cases ha : x = '&'
  · subst ha; decide
  · by_cases hl : x = '<'
    · subst hl; decide
    · simp [ha, hl, e2]

/-- decoding undoes the `&` / `<` substitution -/
theorem vttDecode_e2 (s : Str) : vttDecode (s.flatMap e2) = s := by
  induction s with
  | nil => rfl
  | cons c s ih =>
    simp only [List.flatMap_cons]
    by_cases ha : c = '&'
    · subst ha
      rw [e2_amp]
      simp only [List.cons_append, vttDecode, vttDecodeAux, isPrefix_append, if_true]
      rw [vttDecodeAux_drop]
      have hd : ("amp;".toList ++ List.flatMap e2 s).drop 4 = List.flatMap e2 s := by
        have : "amp;".toList = ['a', 'm', 'p', ';'] := by decide
        rw [this]; rfl
      rw [hd]
      exact congrArg _ ih
    · by_cases hl : c = '<'
      · subst hl
        rw [e2_lt]
        have hna : isPrefix "amp;".toList ("lt;".toList ++ List.flatMap e2 s) = false := by
          have e1 : "amp;".toList = ['a', 'm', 'p', ';'] := by decide
          have e2' : "lt;".toList = ['l', 't', ';'] := by decide
          rw [e1, e2']; simp [isPrefix, dropPrefix?]
        simp only [List.cons_append, vttDecode, vttDecodeAux, hna, Bool.false_eq_true, isPrefix_append, if_true, if_false]
        rw [vttDecodeAux_drop]
        have hd : ("lt;".toList ++ List.flatMap e2 s).drop 3 = List.flatMap e2 s := by
          have : "lt;".toList = ['l', 't', ';'] := by decide
          rw [this]; rfl
        rw [hd]
        exact congrArg _ ih
      · rw [e2_other c ha hl]
        simp only [List.cons_append, List.nil_append]
        rw [vttDecode_cons_ne _ _ ha, ih]

end PcVerif.Spec

namespace PcVerif.Spec
open Str TextW

def arrowOld : Str := ['-', '-', '>']
def arrowNew : Str := ['-', '-', '&', 'g', 't', ';']

theorem isPrefix_arrow (c : Char) (s : Str) (h : isPrefix arrowOld (c :: s) = true) :
    c = '-' ∧ ∃ r, s = '-' :: '>' :: r := by
  unfold isPrefix arrowOld at h
  simp only [dropPrefix?] at h
  by_cases hc : c = '-'
  · refine ⟨hc, ?_⟩
    rw [if_pos hc] at h
    match s, h with
    | a :: b :: r, h =>
      simp only [dropPrefix?] at h
      by_cases ha : a = '-'
      · rw [if_pos ha] at h
        by_cases hb : b = '>'
        · exact ⟨r, by rw [ha, hb]⟩
        · rw [if_neg hb] at h; simp at h
      · rw [if_neg ha] at h; simp at h
    | [a], h =>
      simp only [dropPrefix?] at h
      by_cases ha : a = '-'
      · rw [if_pos ha] at h; simp [dropPrefix?] at h
      · rw [if_neg ha] at h; simp at h
    | [], h => simp [dropPrefix?] at h
  · rw [if_neg hc] at h; simp at h

/-- the arrow substitution does not touch a dash-free prefix -/
theorem dropPrefix_replaceArrow (p : Str) (hp : ∀ x ∈ p, x ≠ '-') (s : Str) :
    dropPrefix? (replaceAux arrowOld arrowNew 0 s) p = (dropPrefix? s p).map (replaceAux arrowOld arrowNew 0) := by
  induction p generalizing s with
  | nil => simp [dropPrefix?]
  | cons x p ih =>
    have hx : x ≠ '-' := hp x (by simp)
    have hp' : ∀ y ∈ p, y ≠ '-' := fun y hy => hp y (by simp [hy])
    cases s with
    | nil => simp [replaceAux, dropPrefix?]
    | cons c s =>
      simp only [replaceAux]
      by_cases hm : isPrefix arrowOld (c :: s) = true
      · obtain ⟨hc, _⟩ := isPrefix_arrow c s hm
        rw [if_pos hm]
        subst hc
        have hne : ¬ ('-' = x) := fun e => hx e.symm
        simp [arrowNew, dropPrefix?, hne]
      · rw [if_neg hm]
        simp only [dropPrefix?]
        by_cases hcx : c = x
        · rw [if_pos hcx, if_pos hcx]; exact ih hp' s
        · rw [if_neg hcx, if_neg hcx]; rfl

theorem dropPrefix_eq_append {s p r : Str} (h : dropPrefix? s p = some r) : s = p ++ r := by
  induction p generalizing s with
  | nil => simp [dropPrefix?] at h; simp [h]
  | cons x p ih =>
    cases s with
    | nil => simp [dropPrefix?] at h
    | cons c s =>
      simp only [dropPrefix?] at h
      by_cases hcx : c = x
      · rw [if_pos hcx] at h; rw [hcx, ih h]; rfl
      · rw [if_neg hcx] at h; simp at h

end PcVerif.Spec

namespace PcVerif.Spec
open Str TextW

abbrev R := replaceAux arrowOld arrowNew 0

theorem isPrefix_R (p : Str) (hp : ∀ x ∈ p, x ≠ '-') (s : Str) : isPrefix p (R s) = isPrefix p s := by
  unfold isPrefix R
  rw [dropPrefix_replaceArrow p hp s]
  cases dropPrefix? s p <;> rfl

theorem branch_R (p : Str) (k : Nat) (hk : p.length = k) (hp : ∀ x ∈ p, x ≠ '-') (s : Str)
    (ih : ∀ r : Str, r.length ≤ s.length → vttDecodeAux 0 (R r) = vttDecodeAux 0 r)
    (hpre : isPrefix p s = true) : vttDecodeAux k (R s) = vttDecodeAux k s := by
  unfold isPrefix at hpre
  cases hd : dropPrefix? s p with
  | none => rw [hd] at hpre; simp at hpre
  | some r =>
    have hs : s = p ++ r := dropPrefix_eq_append hd
    have hR : R s = p ++ R r := by
      apply dropPrefix_eq_append
      show dropPrefix? (replaceAux arrowOld arrowNew 0 s) p = _
      rw [dropPrefix_replaceArrow p hp s, hd]; rfl
    rw [vttDecodeAux_drop, vttDecodeAux_drop k s, hR]
    conv => rhs; rw [hs]
    rw [← hk, List.drop_left, List.drop_left]
    exact ih r (by rw [hs]; simp)

theorem decode_replaceArrow_aux (n : Nat) : ∀ (s : Str), s.length ≤ n → ∀ k,
    vttDecodeAux 0 (replaceAux arrowOld arrowNew k s) = vttDecodeAux 0 (s.drop k) := by
  induction n with
  | zero =>
    intro s hs k
    have : s = [] := List.eq_nil_of_length_eq_zero (Nat.le_zero.mp hs)
    subst this; cases k <;> simp [replaceAux]
  | succ n ih =>
    intro s hs k
    cases s with
    | nil => cases k <;> simp [replaceAux]
    | cons c s =>
      have hl : s.length ≤ n := by simpa using hs
      cases k with
      | succ k => simp only [replaceAux, List.drop_succ_cons]; exact ih s hl k
      | zero =>
        simp only [replaceAux, List.drop_zero]
        by_cases hm : isPrefix arrowOld (c :: s) = true
        · obtain ⟨hc, r, hr⟩ := isPrefix_arrow c s hm
          rw [if_pos hm]; subst hc; subst hr
          have h2 : arrowOld.length - 1 = 2 := rfl
          rw [h2]
          simp only [replaceAux]
          have hrl : r.length ≤ n := by simp at hl; omega
          have ihr := ih r hrl 0
          simp only [List.drop_zero] at ihr
          have e1 : arrowNew ++ replaceAux arrowOld arrowNew 0 r =
              '-' :: '-' :: '&' :: ("gt;".toList ++ replaceAux arrowOld arrowNew 0 r) := rfl
          rw [e1]
          have hna : isPrefix "amp;".toList ("gt;".toList ++ replaceAux arrowOld arrowNew 0 r) = false := by
            have a1 : "amp;".toList = ['a', 'm', 'p', ';'] := by decide
            have a2 : "gt;".toList = ['g', 't', ';'] := by decide
            rw [a1, a2]; simp [isPrefix, dropPrefix?]
          have hnl : isPrefix "lt;".toList ("gt;".toList ++ replaceAux arrowOld arrowNew 0 r) = false := by
            have a1 : "lt;".toList = ['l', 't', ';'] := by decide
            have a2 : "gt;".toList = ['g', 't', ';'] := by decide
            rw [a1, a2]; simp [isPrefix, dropPrefix?]
          have hd : ("gt;".toList ++ replaceAux arrowOld arrowNew 0 r).drop 3 = replaceAux arrowOld arrowNew 0 r := by
            have a2 : "gt;".toList = ['g', 't', ';'] := by decide
            rw [a2]; rfl
          have d1 : ¬ ('-' = '&') := by decide
          have d2 : ¬ ('>' = '&') := by decide
          simp only [vttDecodeAux, d1, d2, if_false, if_true, hna, hnl, isPrefix_append, Bool.false_eq_true]
          rw [vttDecodeAux_drop 3, hd, ihr]
        · rw [if_neg hm]
          have ih0 : ∀ r : Str, r.length ≤ s.length → vttDecodeAux 0 (R r) = vttDecodeAux 0 r := by
            intro r hr
            have := ih r (Nat.le_trans hr hl) 0
            simpa using this
          by_cases hc : c = '&'
          · subst hc
            have q1 : ∀ x ∈ "amp;".toList, x ≠ '-' := by decide
            have q2 : ∀ x ∈ "lt;".toList, x ≠ '-' := by decide
            have q3 : ∀ x ∈ "gt;".toList, x ≠ '-' := by decide
            have q4 : ∀ x ∈ "nbsp;".toList, x ≠ '-' := by decide
            have q5 : ∀ x ∈ "lrm;".toList, x ≠ '-' := by decide
            have q6 : ∀ x ∈ "rlm;".toList, x ≠ '-' := by decide
            show vttDecodeAux 0 ('&' :: R s) = vttDecodeAux 0 ('&' :: s)
            simp only [vttDecodeAux, if_true, isPrefix_R _ q1, isPrefix_R _ q2, isPrefix_R _ q3, isPrefix_R _ q4,
              isPrefix_R _ q5, isPrefix_R _ q6]
            by_cases h1 : isPrefix "amp;".toList s = true
            · simp only [h1, if_true]; rw [branch_R _ 4 (by decide) q1 s ih0 h1]
            · simp only [Bool.not_eq_true] at h1; simp only [h1, Bool.false_eq_true, if_false]
              by_cases h2 : isPrefix "lt;".toList s = true
              · simp only [h2, if_true]; rw [branch_R _ 3 (by decide) q2 s ih0 h2]
              · simp only [Bool.not_eq_true] at h2; simp only [h2, Bool.false_eq_true, if_false]
                by_cases h3 : isPrefix "gt;".toList s = true
                · simp only [h3, if_true]; rw [branch_R _ 3 (by decide) q3 s ih0 h3]
                · simp only [Bool.not_eq_true] at h3; simp only [h3, Bool.false_eq_true, if_false]
                  by_cases h4 : isPrefix "nbsp;".toList s = true
                  · simp only [h4, if_true]; rw [branch_R _ 5 (by decide) q4 s ih0 h4]
                  · simp only [Bool.not_eq_true] at h4; simp only [h4, Bool.false_eq_true, if_false]
                    by_cases h5 : isPrefix "lrm;".toList s = true
                    · simp only [h5, if_true]; rw [branch_R _ 4 (by decide) q5 s ih0 h5]
                    · simp only [Bool.not_eq_true] at h5; simp only [h5, Bool.false_eq_true, if_false]
                      by_cases h6 : isPrefix "rlm;".toList s = true
                      · simp only [h6, if_true]; rw [branch_R _ 4 (by decide) q6 s ih0 h6]
                      · simp only [Bool.not_eq_true] at h6; simp only [h6, Bool.false_eq_true, if_false]; rw [ih0 s (Nat.le_refl _)]
          · simp only [vttDecodeAux, hc, if_false]
            rw [ih0 s (Nat.le_refl _)]

theorem decode_replaceArrow (s : Str) : vttDecode (replace "-->".toList "--&gt;".toList s) = vttDecode s := by
  have h1 : "-->".toList = arrowOld := by decide
  have h2 : "--&gt;".toList = arrowNew := by decide
  rw [h1, h2]
  have := decode_replaceArrow_aux s.length s (Nat.le_refl _) 0
  simpa [vttDecode, replace] using this

/-- **WebVTT cue text survives the writer's escaping**: decoding what `vttEncode` writes gives the text back -/
theorem vtt_escapes_pinned : Generated.vttEscapes = [("&", "&amp;"), ("<", "&lt;"), ("-->", "--&gt;")] := by decide

theorem vttEncode_eq (s : Str) : vttEncode s =
    replace "-->".toList "--&gt;".toList (replace "<".toList "&lt;".toList (replace "&".toList "&amp;".toList s)) := by
  unfold vttEncode; rw [vtt_escapes_pinned]; rfl

theorem vttDecode_vttEncode (s : Str) : vttDecode (vttEncode s) = s := by
  rw [vttEncode_eq, decode_replaceArrow, encode_amp_lt, vttDecode_e2]

end PcVerif.Spec

namespace PcVerif.Spec
open Str TextW

theorem isPrefix_arrow_iff (c : Char) (t : Str) :
    isPrefix arrowOld (c :: t) = true ↔ c = '-' ∧ ∃ r, t = '-' :: '>' :: r := by
  constructor
  · exact isPrefix_arrow c t
  · rintro ⟨rfl, r, rfl⟩
    simp [isPrefix, dropPrefix?, arrowOld]

theorem R_head (s : Str) : (R s).head? = s.head? := by
  cases s with
  | nil => rfl
  | cons c s =>
    show (replaceAux arrowOld arrowNew 0 (c :: s)).head? = _
    simp only [replaceAux]
    by_cases hm : isPrefix arrowOld (c :: s) = true
    · rw [if_pos hm]
      obtain ⟨hc, _⟩ := isPrefix_arrow c s hm
      subst hc; rfl
    · rw [if_neg hm]; rfl

theorem R_cons_nomatch (c : Char) (s : Str) (hm : ¬ isPrefix arrowOld (c :: s) = true) : R (c :: s) = c :: R s := by
  show replaceAux arrowOld arrowNew 0 (c :: s) = _
  simp only [replaceAux]; rw [if_neg hm]

theorem R_cons_match (r : Str) : R ('-' :: '-' :: '>' :: r) = arrowNew ++ R r := by
  show replaceAux arrowOld arrowNew 0 _ = _
  have hm : isPrefix arrowOld ('-' :: '-' :: '>' :: r) = true := (isPrefix_arrow_iff _ _).2 ⟨rfl, r, rfl⟩
  simp only [replaceAux]; rw [if_pos hm]
  have h2 : arrowOld.length - 1 = 2 := rfl
  rw [h2]; simp only [replaceAux]

/-- a literal character followed by substituted text starts an arrow only if the source did -/
theorem arrow_before_R (c : Char) (s : Str) (h : isPrefix arrowOld (c :: R s) = true) : isPrefix arrowOld (c :: s) = true := by
  obtain ⟨hc, r, hr⟩ := (isPrefix_arrow_iff _ _).1 h
  cases s with
  | nil => simp [R, replaceAux] at hr
  | cons d s' =>
    by_cases hm : isPrefix arrowOld (d :: s') = true
    · obtain ⟨hd, r', hr'⟩ := (isPrefix_arrow_iff _ _).1 hm
      subst hd; subst hr'
      rw [R_cons_match] at hr
      simp [arrowNew] at hr
    · rw [R_cons_nomatch d s' hm] at hr
      have hd : d = '-' := by injection hr
      have ht : R s' = '>' :: r := by injection hr
      have hh : s'.head? = some '>' := by rw [← R_head, ht]; rfl
      cases s' with
      | nil => simp at hh
      | cons e s'' =>
        simp at hh
        subst hh; subst hd
        exact (isPrefix_arrow_iff _ _).2 ⟨hc, s'', rfl⟩

theorem contains_cons (needle : Str) (c : Char) (s : Str) :
    Str.contains needle (c :: s) = (isPrefix needle (c :: s) || Str.contains needle s) := rfl

theorem no_arrow_R_aux (n : Nat) : ∀ s : Str, s.length ≤ n → Str.contains arrowOld (R s) = false := by
  induction n with
  | zero =>
    intro s hs
    have : s = [] := List.eq_nil_of_length_eq_zero (Nat.le_zero.mp hs)
    subst this; rfl
  | succ n ih =>
    intro s hs
    cases s with
    | nil => rfl
    | cons c s =>
      have hl : s.length ≤ n := by simpa using hs
      by_cases hm : isPrefix arrowOld (c :: s) = true
      · obtain ⟨hc, r, hr⟩ := (isPrefix_arrow_iff _ _).1 hm
        subst hc; subst hr
        rw [R_cons_match]
        have hr : Str.contains arrowOld (R r) = false := ih r (by simp at hl; omega)
        cases hX : R r with
        | nil => decide
        | cons x X =>
          rw [hX] at hr
          simp only [arrowNew, List.cons_append, List.nil_append, contains_cons, hr, Bool.or_false]
          simp [isPrefix, dropPrefix?, arrowOld]
      · rw [R_cons_nomatch c s hm, contains_cons, ih s hl, Bool.or_false]
        cases hp : isPrefix arrowOld (c :: R s) with
        | false => rfl
        | true => exact absurd (arrow_before_R c s hp) hm

theorem mem_replaceAux (old new : Str) (x : Char) : ∀ (s : Str) (k : Nat), x ∈ replaceAux old new k s → x ∈ s ∨ x ∈ new := by
  intro s
  induction s with
  | nil => intro k h; cases k <;> simp [replaceAux] at h
  | cons c s ih =>
    intro k h
    cases k with
    | succ k =>
      simp only [replaceAux] at h
      rcases ih k h with h1 | h1
      · exact Or.inl (List.mem_cons_of_mem _ h1)
      · exact Or.inr h1
    | zero =>
      simp only [replaceAux] at h
      split at h
      · rcases List.mem_append.mp h with h1 | h1
        · exact Or.inr h1
        · rcases ih _ h1 with h2 | h2
          · exact Or.inl (List.mem_cons_of_mem _ h2)
          · exact Or.inr h2
      · rcases List.mem_cons.mp h with h1 | h1
        · exact Or.inl (by rw [h1]; exact List.mem_cons_self)
        · rcases ih _ h1 with h2 | h2
          · exact Or.inl (List.mem_cons_of_mem _ h2)
          · exact Or.inr h2

/-- what the WebVTT writer's escaping produces contains no `-->` … -/
theorem vttEncode_no_arrow (s : Str) : Str.contains "-->".toList (vttEncode s) = false := by
  rw [vttEncode_eq]
  have h1 : "-->".toList = arrowOld := by decide
  have h2 : "--&gt;".toList = arrowNew := by decide
  rw [h1, h2]
  exact no_arrow_R_aux _ _ (Nat.le_refl _)

/-- … and no `<`, so no text can end its cue or open a tag -/
theorem vttEncode_no_lt (s : Str) : '<' ∉ vttEncode s := by
  rw [vttEncode_eq, encode_amp_lt]
  intro h
  rcases mem_replaceAux _ _ _ _ _ h with h1 | h1
  · rw [List.mem_flatMap] at h1
    obtain ⟨c, _, hc⟩ := h1
    unfold e2 at hc
    by_cases ha : c = '&'
    · rw [if_pos ha] at hc; revert hc; decide
    · rw [if_neg ha] at hc
      by_cases hl : c = '<'
      · rw [if_pos hl] at hc; revert hc; decide
      · rw [if_neg hl] at hc; simp at hc; exact hl hc.symm
  · revert h1; decide

end PcVerif.Spec
