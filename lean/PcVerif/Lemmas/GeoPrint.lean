/-
  Printing and re-parsing of sizes (C18): `Size.from_string(str(size))`.
-/
import PcVerif.Lemmas.GeoLemmas
import PcVerif.Lemmas.MicroDvdRoundTrip
import Mathlib.Tactic.Ring
import Mathlib.Tactic.NormNum
import Mathlib.Tactic.Linarith
import Mathlib.Tactic.Positivity
namespace PcVerif.Geo
open Str

theorem natOfDigitsAux_acc : ∀ (b : Str) (acc : Nat), natOfDigitsAux acc b = acc * 10 ^ b.length + natOfDigitsAux 0 b := by
  intro b
  induction b with
  | nil => intro acc; show acc = acc * 10 ^ 0 + 0; rw [Nat.pow_zero, Nat.mul_one, Nat.add_zero]
  | cons c b ih =>
    intro acc
    show natOfDigitsAux (acc * 10 + digitVal c) b = acc * 10 ^ (b.length + 1) + natOfDigitsAux (0 * 10 + digitVal c) b
    generalize digitVal c = d
    have h1 := ih (acc * 10 + d)
    have h2 := ih (0 * 10 + d)
    generalize natOfDigitsAux (acc * 10 + d) b = A at h1 ⊢
    generalize natOfDigitsAux (0 * 10 + d) b = B at h2 ⊢
    generalize natOfDigitsAux 0 b = X at h1 h2
    rw [h1, h2, Nat.pow_succ]
    generalize 10 ^ b.length = P
    simp only [Nat.add_mul, Nat.zero_mul, Nat.zero_add, Nat.mul_assoc, Nat.mul_comm 10 P, Nat.add_assoc]

theorem natOfDigitsAux_append : ∀ (a b : Str) (acc : Nat), natOfDigitsAux acc (a ++ b) = natOfDigitsAux (natOfDigitsAux acc a) b := by
  intro a
  induction a with
  | nil => intro b acc; rfl
  | cons c a ih => intro b acc; exact ih b (acc * 10 + digitVal c)

theorem natOfDigits_append (a b : Str) : natOfDigits (a ++ b) = natOfDigits a * 10 ^ b.length + natOfDigits b := by
  show natOfDigitsAux 0 (a ++ b) = natOfDigitsAux 0 a * 10 ^ b.length + natOfDigitsAux 0 b
  rw [natOfDigitsAux_append]
  exact natOfDigitsAux_acc b _

theorem ofNat_digit_length (d : Nat) (h : d < 10) : (ofNat d).length = 1 := by
  have key : ∀ k : Fin 10, (ofNat k.val).length = 1 := by decide
  exact key ⟨d, h⟩

theorem isDecimals_ofNat (n : Nat) : IsDecimals (ofNat n) :=
  ⟨(Srt.digits_ofNat n).1, (Srt.digits_ofNat n).allDecimal⟩

theorem unit_head_not_decimal (u : Geo.Unit) (nl : Bool) (c : Char) (r : Str)
    (h : u.text ++ (if nl then ['\n'] else []) = c :: r) : isDecimal c = false := by
  cases u <;> simp [Unit.text] at h <;> (obtain ⟨rfl, _⟩ := h; decide)

theorem unit_head_ne_dot (u : Geo.Unit) (nl : Bool) (r : Str)
    (h : u.text ++ (if nl then ['\n'] else []) = '.' :: r) : False := by
  cases u <;> simp [Unit.text] at h

/-- the number matcher finds exactly the number in front of a unit -/
theorem matchNumber_complete (ip fp : Str) (u : Geo.Unit) (nl : Bool) (hip : IsDecimals ip) (hfp : fp = [] ∨ IsDecimals fp) :
    matchNumber (ip ++ (if fp = [] then [] else '.' :: fp) ++ (u.text ++ (if nl then ['\n'] else [])))
      = some (ip, fp, u.text ++ (if nl then ['\n'] else [])) := by
  unfold matchNumber
  rcases hfp with hfp | hfp
  · subst hfp
    simp only [if_true, List.append_nil]
    rw [spanDecimals_append ip _ hip.2 (unit_head_not_decimal u nl)]
    have : ip.isEmpty = false := by cases ip <;> simp_all [IsDecimals]
    simp only [this, Bool.false_eq_true, if_false]
    split
    · rename_i r' e
      exact (unit_head_ne_dot u nl r' e).elim
    · rfl
  · have hne : fp ≠ [] := hfp.1
    simp only [hne, if_false, List.append_assoc, List.cons_append]
    rw [spanDecimals_append ip _ hip.2 (by intro c r e; simp at e; obtain ⟨rfl, _⟩ := e; decide)]
    have : ip.isEmpty = false := by cases ip <;> simp_all [IsDecimals]
    simp only [this, Bool.false_eq_true, if_false]
    rw [spanDecimals_append fp _ hfp.2 (unit_head_not_decimal u nl)]
    have : fp.isEmpty = false := by cases fp <;> simp_all
    simp [this]

/-- the unit matcher returns the unit whose text follows (no unit text is a prefix of another one that reaches `$`) -/
theorem matchUnitDollar_text (u : Geo.Unit) (nl : Bool) : matchUnitDollar (u.text ++ (if nl then ['\n'] else [])) = some u := by
  cases u <;> cases nl <;> decide

/-- a decimal number followed by a unit parses to its value and that unit -/
theorem fromString_decimal (ip fp : Str) (u : Geo.Unit) (hip : IsDecimals ip) (hfp : fp = [] ∨ IsDecimals fp) :
    Size.fromString (ip ++ (if fp = [] then [] else '.' :: fp) ++ u.text) = .ok ⟨decimalValue ip fp, u⟩ := by
  have hm := matchNumber_complete ip fp u false hip hfp
  have hu := matchUnitDollar_text u false
  simp only [Bool.false_eq_true, if_false, List.append_nil] at hm hu
  unfold Size.fromString
  rw [hm]
  simp only
  rw [hu]

/-- what is printed for `N` hundredths reads back as `N / 100` -/
theorem hundredths_parse (N : Nat) (u : Geo.Unit) :
    Size.fromString (hundredthsToStr N ++ u.text) = .ok ⟨mkRat N 100, u⟩ := by
  unfold hundredthsToStr
  simp only
  have hd1 : N % 100 / 10 < 10 := by omega
  have hd2 : N % 10 < 10 := by omega
  split
  · -- whole number
    rename_i h0
    have := fromString_decimal (ofNat (N / 100)) [] u (isDecimals_ofNat _) (Or.inl rfl)
    simp only [if_true, List.append_nil] at this
    rw [this]
    congr 2
    unfold decimalValue
    rw [Rat.mkRat_eq_iff (by simp) (by decide)]
    simp only [List.append_nil, MicroDvd.natOfDigits_ofNat, List.length_nil, Nat.pow_zero, Int.ofNat_eq_natCast]
    omega
  · split
    · -- one decimal
      rename_i h0 h2
      have hne : ofNat (N % 100 / 10) ≠ [] := (isDecimals_ofNat _).1
      have := fromString_decimal (ofNat (N / 100)) (ofNat (N % 100 / 10)) u (isDecimals_ofNat _) (Or.inr (isDecimals_ofNat _))
      simp only [hne, if_false] at this
      rw [this]
      congr 2
      unfold decimalValue
      rw [Rat.mkRat_eq_iff (by simp) (by decide)]
      rw [natOfDigits_append, ofNat_digit_length _ hd1]
      simp only [MicroDvd.natOfDigits_ofNat, Nat.pow_one, Int.ofNat_eq_natCast]
      omega
    · -- two decimals
      rename_i h0 h2
      have hfp : IsDecimals (ofNat (N % 100 / 10) ++ ofNat (N % 10)) :=
        ⟨by simp [(isDecimals_ofNat (N % 100 / 10)).1], by
          intro c hc
          rcases List.mem_append.mp hc with h | h
          · exact (isDecimals_ofNat _).2 c h
          · exact (isDecimals_ofNat _).2 c h⟩
      have hne : ofNat (N % 100 / 10) ++ ofNat (N % 10) ≠ [] := hfp.1
      have := fromString_decimal (ofNat (N / 100)) (ofNat (N % 100 / 10) ++ ofNat (N % 10)) u (isDecimals_ofNat _) (Or.inr hfp)
      simp only [hne, if_false] at this
      rw [this]
      congr 2
      unfold decimalValue
      rw [Rat.mkRat_eq_iff (by simp) (by decide)]
      rw [natOfDigits_append, natOfDigits_append, List.length_append, ofNat_digit_length _ hd1, ofNat_digit_length _ hd2]
      simp only [MicroDvd.natOfDigits_ofNat, Nat.pow_one, Int.ofNat_eq_natCast]
      omega

theorem roundHalfEven_nonneg (q : Rat) (h : 0 ≤ q) : 0 ≤ roundHalfEven q := by
  have hf : (0 : Int) ≤ q.floor := Rat.le_floor_iff.mpr (by simpa using h)
  unfold roundHalfEven
  simp only
  split
  · exact hf
  · split
    · omega
    · split <;> omega

theorem roundHalfEven_intCast (n : Int) : roundHalfEven (n : Rat) = n := by
  unfold roundHalfEven
  simp only [Rat.floor_intCast]
  have : (n : Rat) - ((n : Int) : Rat) < 1 / 2 := by
    rw [sub_self]; norm_num
  simp [this]

/-- **printing then parsing.** a non-negative size reads back as its value rounded (half to even) to hundredths,
    with its unit -/
theorem print_parse (s : Size) (h : 0 ≤ s.value) :
    Size.fromString s.toStr = .ok ⟨mkRat (roundHalfEven (s.value * 100)) 100, s.unit⟩ := by
  have hn := roundHalfEven_nonneg (s.value * 100) (Rat.mul_nonneg h (by decide))
  unfold Size.toStr
  simp only
  have hlt : ¬ (roundHalfEven (s.value * 100) < 0) := by omega
  rw [if_neg hlt, hundredths_parse]
  congr 3
  omega

end PcVerif.Geo

namespace PcVerif.Geo
theorem print_parse_exact (k : Nat) (u : Geo.Unit) :
    Size.fromString (Size.toStr ⟨mkRat k 100, u⟩) = .ok ⟨mkRat k 100, u⟩ := by
  have hv : (0 : Rat) ≤ mkRat k 100 := by
    rw [Rat.mkRat_eq_div]; push_cast; exact div_nonneg (Nat.cast_nonneg k) (by norm_num)
  have := print_parse ⟨mkRat k 100, u⟩ hv
  simp only at this
  rw [this]
  have e : (mkRat (k : Int) 100 : Rat) * 100 = ((k : Int) : Rat) := by
    rw [Rat.mkRat_eq_div]; push_cast; norm_num
  rw [e, roundHalfEven_intCast]
end PcVerif.Geo
