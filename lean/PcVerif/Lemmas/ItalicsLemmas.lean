/-
  Invariants of the SCC reader's italics passes (`_format_italics`): after the passes the italics-on / italics-off
  instruction nodes alternate, start with "on" and are closed at the end.
-/
import PcVerif.Model.Scc.Reader
namespace PcVerif.Scc

/-- the sequence of style switches in an instruction list: true = italics on, false = italics off -/
def styles : List INode → List Bool
  | [] => []
  | n :: ns => if n.kind == .ion then true :: styles ns else if n.kind == .ioff then false :: styles ns else styles ns

/-- alternating, the first element being `b` -/
def AltFrom : Bool → List Bool → Prop
  | _, [] => True
  | b, x :: xs => x = b ∧ AltFrom (!b) xs

@[simp] theorem kind_beq (a b : Kind) : (a == b) = decide (a = b) := by cases a <;> cases b <;> rfl

/-- balanced: alternating from "on" with every "on" closed -/
def Balanced (l : List Bool) : Prop := AltFrom true l ∧ l.length % 2 = 0

theorem styles_append (a b : List INode) : styles (a ++ b) = styles a ++ styles b := by
  induction a with
  | nil => rfl
  | cons n ns ih => simp only [List.cons_append, styles]; split <;> (try split) <;> simp [ih]

/-! #### pass 3: `_skip_redundant_italics_nodes` makes the switches alternate, starting with "on" -/
theorem skipRedundant_alt (st : Option Bool) (l : List INode) :
    AltFrom (match st with | none => true | some s => !s) (styles (skipRedundant st l)) := by
  induction l generalizing st with
  | nil => simp [skipRedundant, styles, AltFrom]
  | cons n ns ih =>
    have i0 := ih none
    have i1 := ih (some true)
    have i2 := ih (some false)
    simp only [Bool.not_true, Bool.not_false] at i0 i1 i2
    cases hk : n.kind <;> cases st with
      | none => simp [skipRedundant, styles, hk, AltFrom, i0, i1, i2]
      | some s => cases s <;> simp [skipRedundant, styles, hk, AltFrom, i0, i1, i2]

/-! #### pass 4: closing italics before a repositioning keeps the alternation -/
theorem closeBeforeRepos_alt (on : Bool) (p : Pos) (l : List INode) (h : AltFrom (!on) (styles l)) :
    AltFrom (!on) (styles (closeBeforeRepos on p l)) := by
  induction l generalizing on p with
  | nil => simp [closeBeforeRepos, styles, AltFrom]
  | cons n ns ih =>
    cases hk : n.kind <;> cases on <;>
      simp only [closeBeforeRepos, styles, hk, AltFrom, Bool.not_true, Bool.not_false, reduceCtorEq, beq_self_eq_true,
        if_true, if_false, Bool.false_eq_true, Bool.and_false, Bool.and_true, true_and, false_and, beq_iff_eq,
        Bool.true_eq_false] at h ⊢
    all_goals first
      | exact h.elim
      | (simpa using ih false _ (by simpa using h))
      | (simpa using ih true _ (by simpa using h))
      | (refine ⟨trivial, ?_⟩; simpa using ih true _ (by simpa using h))
      | skip

/-! #### pass 5: `_ensure_final_italics_node_closes` -/
theorem finalState_spec (on : Bool) (p : Pos) (l : List INode) (h : AltFrom (!on) (styles l)) :
    (finalState on p l).1 = (if (styles l).length % 2 = 0 then on else !on) := by
  induction l generalizing on p with
  | nil => simp [finalState, styles]
  | cons n ns ih =>
    cases hk : n.kind <;> cases on <;>
      simp only [finalState, styles, hk, AltFrom, Bool.not_true, Bool.not_false, reduceCtorEq, beq_self_eq_true,
        if_true, if_false, Bool.false_eq_true, true_and, false_and, beq_iff_eq, Bool.true_eq_false, List.length_cons] at h ⊢
    all_goals first
      | exact h.elim
      | (simpa using ih false _ (by simpa using h))
      | (simpa using ih true _ (by simpa using h))
      | (rw [ih true n.pos (by simpa using h)]
         by_cases he : (styles ns).length % 2 = 0
         · have h3 : ((styles ns).length + 1) % 2 ≠ 0 := by omega
           simp [he, h3]
         · have h3 : ((styles ns).length + 1) % 2 = 0 := by omega
           simp [he, h3])
      | (rw [ih false p (by simpa using h)]
         by_cases he : (styles ns).length % 2 = 0
         · have h3 : ((styles ns).length + 1) % 2 ≠ 0 := by omega
           simp [he, h3]
         · have h3 : ((styles ns).length + 1) % 2 = 0 := by omega
           simp [he, h3])
      | skip

theorem altFrom_append_single (b : Bool) (l : List Bool) (h : AltFrom b l) :
    AltFrom b (l ++ [if l.length % 2 = 0 then b else !b]) := by
  induction l generalizing b with
  | nil => simp [AltFrom]
  | cons x xs ih =>
    obtain ⟨h1, h2⟩ := h
    subst h1
    refine ⟨rfl, ?_⟩
    have := ih (!x) h2
    simp only [List.length_cons]
    by_cases he : xs.length % 2 = 0
    · have h3 : (xs.length + 1) % 2 ≠ 0 := by omega
      simpa [he, h3] using this
    · have h3 : (xs.length + 1) % 2 = 0 := by omega
      simpa [he, h3] using this

theorem ensureFinalClose_balanced (l : List INode) (h : AltFrom true (styles l)) :
    Balanced (styles (ensureFinalClose l)) := by
  unfold ensureFinalClose
  have hs := finalState_spec false (0, 0) l (by simpa using h)
  generalize hf : finalState false (0, 0) l = fs at hs
  obtain ⟨on, p⟩ := fs
  simp only at hs ⊢
  by_cases he : (styles l).length % 2 = 0
  · simp only [he, if_true] at hs
    subst hs
    simp only [Bool.false_eq_true, if_false]
    exact ⟨h, he⟩
  · simp only [he, if_false, Bool.not_false] at hs
    subst hs
    simp only [if_true, styles_append]
    have k1 : styles [(⟨.ioff, [], p⟩ : INode)] = [false] := rfl
    rw [k1]
    constructor
    · have := altFrom_append_single true (styles l) h
      simpa [he] using this
    · simp only [List.length_append, List.length_cons, List.length_nil]; omega

end PcVerif.Scc

namespace PcVerif.Scc

/-- `b` : the pair (b, !b) may be removed where it is adjacent -/
inductive Removes (b : Bool) : List Bool → List Bool → Prop
  | nil : Removes b [] []
  | cons (x : Bool) {l l' : List Bool} : Removes b l l' → Removes b (x :: l) (x :: l')
  | pair {l l' : List Bool} : Removes b l l' → Removes b (b :: (!b) :: l) l'

theorem Removes.refl (b : Bool) (l : List Bool) : Removes b l l := by
  induction l with
  | nil => exact .nil
  | cons x xs ih => exact .cons x ih

theorem Removes.alt {b : Bool} {l l' : List Bool} (h : Removes b l l') (e : Bool) (ha : AltFrom e l) : AltFrom e l' := by
  induction h generalizing e with
  | nil => trivial
  | cons x _ ih => exact ⟨ha.1, ih _ ha.2⟩
  | pair _ ih =>
    obtain ⟨h1, h2, h3⟩ := ha
    subst h1
    simp only [Bool.not_not] at h3
    exact ih _ h3

theorem Removes.parity {b : Bool} {l l' : List Bool} (h : Removes b l l') : l'.length % 2 = l.length % 2 := by
  induction h with
  | nil => rfl
  | cons x _ ih => simp only [List.length_cons]; omega
  | pair _ ih => simp only [List.length_cons]; omega

/-- the last switch, if any, is "off" -/
def Closed : List Bool → Prop
  | [] => True
  | [x] => x = false
  | _ :: y :: l => Closed (y :: l)

theorem Closed.tail {x : Bool} {l : List Bool} (h : Closed (x :: l)) (hne : l ≠ []) : Closed l := by
  cases l with
  | nil => exact absurd rfl hne
  | cons y l => exact h

theorem closed_of_alt_even : ∀ (l : List Bool), AltFrom true l → l.length % 2 = 0 → Closed l
  | [], _, _ => trivial
  | [_], _, he => by simp at he
  | [x, y], ha, _ => by
    obtain ⟨h1, h2, _⟩ := ha
    subst h1
    show y = false
    simpa using h2
  | x :: y :: z :: t, ha, he => by
    obtain ⟨h1, h2, h3⟩ := ha
    subst h1
    simp only [Bool.not_true, Bool.not_false] at h2 h3
    have hlen : (z :: t).length % 2 = 0 := by
      simp only [List.length_cons] at he ⊢; omega
    exact closed_of_alt_even (z :: t) h3 hlen

end PcVerif.Scc

namespace PcVerif.Scc

def pre (b : Bool) (tc : Option INode) : List Bool := match tc with | some _ => [b] | none => []

/-! #### pass 6: `_remove_noon_off_on_italics`, first half — an "on" directly followed by "off" disappears -/
theorem removeOnOff_removes (l : List INode) (tc : Option INode) (e : Bool)
    (htc : ∀ x, tc = some x → x.kind = .ion)
    (ha : AltFrom e (pre true tc ++ styles l)) (hc : Closed (pre true tc ++ styles l)) :
    Removes true (pre true tc ++ styles l) (styles (removeOnOff tc l)) := by
  induction l generalizing tc e with
  | nil =>
    cases tc with
    | none => exact .nil
    | some x => exact absurd hc (by simp [pre, styles, Closed])
  | cons n ns ih =>
    cases hk : n.kind <;> cases tc with
    | none =>
      simp only [pre, List.nil_append, styles, hk, kind_beq, reduceCtorEq, decide_false, decide_true, Bool.false_eq_true,
        if_false, if_true, removeOnOff] at ha hc ⊢
      first
        | exact ih none e (by simp) (by simpa [pre] using ha) (by simpa [pre] using hc)
        | (-- ion, nothing pending: it becomes the pending node
           have := ih (some n) e (by intro x hx; cases hx; exact hk) (by simpa [pre] using ha) (by simpa [pre] using hc)
           simpa [pre] using this)
        | (-- ioff, nothing pending: emitted
           refine .cons false ?_
           by_cases hne : styles ns = []
           · have := ih none (!e) (by simp) (by simpa [pre] using ha.2) (by simp [pre, hne, Closed])
             simpa [pre] using this
           · have := ih none (!e) (by simp) (by simpa [pre] using ha.2) (by simpa [pre] using Closed.tail hc hne)
             simpa [pre] using this)
    | some x =>
      have hx : x.kind = .ion := htc x rfl
      simp only [pre, List.cons_append, List.nil_append, styles, hk, hx, kind_beq, reduceCtorEq, decide_false, decide_true,
        Bool.false_eq_true, if_false, if_true, removeOnOff] at ha hc ⊢
      first
        | (-- a non-style node after a pending on: the pending node is emitted
           refine .cons true ?_
           by_cases hne : styles ns = []
           · have := ih none (!e) (by simp) (by simpa [pre] using ha.2) (by simp [pre, hne, Closed])
             simpa [pre] using this
           · have := ih none (!e) (by simp) (by simpa [pre] using ha.2) (by simpa [pre] using Closed.tail hc hne)
             simpa [pre] using this)
        | (-- ioff after a pending ion: the pair disappears
           have hpair : Removes true (true :: (!true) :: styles ns) (styles (removeOnOff none ns)) := by
             refine .pair ?_
             obtain ⟨h1, _, h3⟩ := ha
             by_cases hne : styles ns = []
             · have := ih none (!!e) (by simp) (by simpa [pre] using h3) (by simp [pre, hne, Closed])
               simpa [pre] using this
             · have hc2 : Closed (styles ns) := Closed.tail (Closed.tail hc (by simp)) hne
               have := ih none (!!e) (by simp) (by simpa [pre] using h3) (by simpa [pre] using hc2)
               simpa [pre] using this
           simpa using hpair)
        | (-- ion after a pending ion: impossible in an alternating list
           exfalso
           obtain ⟨h1, h2, _⟩ := ha
           subst h1
           simp at h2
           done)

end PcVerif.Scc

namespace PcVerif.Scc

/-! #### pass 6, second half — an "off" directly followed by "on" disappears; a trailing "off" is kept -/
theorem removeOffOn_removes (l : List INode) (tc : Option INode) (e : Bool)
    (htc : ∀ x, tc = some x → x.kind = .ioff)
    (ha : AltFrom e (pre false tc ++ styles l)) :
    Removes false (pre false tc ++ styles l) (styles (removeOffOn tc l)) := by
  induction l generalizing tc e with
  | nil =>
    cases tc with
    | none => exact .nil
    | some x =>
      have hx : x.kind = .ioff := htc x rfl
      simpa [pre, styles, removeOffOn, hx] using Removes.refl false [false]
  | cons n ns ih =>
    cases hk : n.kind <;> cases tc with
    | none =>
      simp only [pre, List.nil_append, styles, hk, kind_beq, reduceCtorEq, decide_false, decide_true, Bool.false_eq_true,
        if_false, if_true, removeOffOn] at ha ⊢
      first
        | exact ih none e (by simp) (by simpa [pre] using ha)
        | (have := ih (some n) e (by intro x hx; cases hx; exact hk) (by simpa [pre] using ha)
           simpa [pre] using this)
        | (refine .cons true ?_
           have := ih none (!e) (by simp) (by simpa [pre] using ha.2)
           simpa [pre] using this)
    | some x =>
      have hx : x.kind = .ioff := htc x rfl
      simp only [pre, List.cons_append, List.nil_append, styles, hk, hx, kind_beq, reduceCtorEq, decide_false, decide_true,
        Bool.false_eq_true, if_false, if_true, removeOffOn] at ha ⊢
      first
        | (refine .cons false ?_
           have := ih none (!e) (by simp) (by simpa [pre] using ha.2)
           simpa [pre] using this)
        | (have hpair : Removes false (false :: (!false) :: styles ns) (styles (removeOffOn none ns)) := by
             refine .pair ?_
             obtain ⟨_, _, h3⟩ := ha
             have := ih none (!!e) (by simp) (by simpa [pre] using h3)
             simpa [pre] using this
           simpa using hpair)
        | (exfalso
           obtain ⟨h1, h2, _⟩ := ha
           subst h1
           simp at h2
           done)

/-! #### pass 7 only touches text -/
theorem styles_rstripBeforeBreak : ∀ (l : List INode), styles (rstripBeforeBreak l) = styles l
  | [] => rfl
  | [n] => by
    unfold rstripBeforeBreak
    split <;> simp [styles]
  | a :: b :: rest => by
    unfold rstripBeforeBreak
    have ih := styles_rstripBeforeBreak (b :: rest)
    split <;> simp [styles, ih]

theorem styles_dropTrailingBreaks : ∀ (l : List INode), styles (dropTrailingBreaks l) = styles l
  | [] => rfl
  | n :: ns => by
    have ih := styles_dropTrailingBreaks ns
    unfold dropTrailingBreaks
    by_cases h : ((dropTrailingBreaks ns).isEmpty && n.kind == .brk) = true
    · simp only [h, if_true]
      simp only [Bool.and_eq_true, List.isEmpty_iff, beq_iff_eq] at h
      rw [h.1] at ih
      simp [styles, h.2, ← ih]
    · simp only [h, if_false]
      simp [styles, ih]

theorem pipeline_balanced (l3 : List INode) (a3 : AltFrom true (styles l3)) :
    Balanced (styles (removeOffOn none (removeOnOff none (ensureFinalClose (closeBeforeRepos false (0, 0) l3))))) := by
  have a4 : AltFrom true (styles (closeBeforeRepos false (0, 0) l3)) := by
    simpa using closeBeforeRepos_alt false (0, 0) l3 (by simpa using a3)
  have b5 := ensureFinalClose_balanced _ a4
  generalize ensureFinalClose (closeBeforeRepos false (0, 0) l3) = l5 at b5 ⊢
  have c5 : Closed (styles l5) := closed_of_alt_even _ b5.1 b5.2
  have r6 := removeOnOff_removes l5 none true (by simp) (by simpa [pre] using b5.1) (by simpa [pre] using c5)
  simp only [pre, List.nil_append] at r6
  have b6 : Balanced (styles (removeOnOff none l5)) := ⟨r6.alt _ b5.1, by rw [r6.parity]; exact b5.2⟩
  have r7 := removeOffOn_removes (removeOnOff none l5) none true (by simp) (by simpa [pre] using b6.1)
  simp only [pre, List.nil_append] at r7
  exact ⟨r7.alt _ b6.1, by rw [r7.parity]; exact b6.2⟩

/-- **italics are balanced.**  Whatever instruction nodes the state machine has collected, after `_format_italics`
    the italics switches alternate, begin with "on", and every "on" is closed (none stays open at the end). -/
theorem formatItalics_balanced (coll : List INode) : Balanced (styles (formatItalics coll)) := by
  unfold formatItalics
  rw [styles_rstripBeforeBreak, styles_dropTrailingBreaks]
  exact pipeline_balanced _ (skipRedundant_alt none _)

end PcVerif.Scc
