/-
  Document level of the MicroDVD reader (C01): every line `{a}{b}text|text` is one caption whose instants are the
  frame numbers divided by the frame rate in force (25 unless a `{0}{0}rate` line declared another).
-/
import PcVerif.Model.MicroDvd
import PcVerif.Lemmas.SrtDocLemmas
namespace PcVerif.MicroDvd
open Str

theorem takeWhile_stop (p : Char → Bool) (a : Str) (x : Char) (r : Str) (ha : ∀ c ∈ a, p c = true) (hx : p x = false) :
    (a ++ x :: r).takeWhile p = a := by
  induction a with
  | nil => simp [List.takeWhile, hx]
  | cons c cs ih =>
    have hc := ha c (by simp)
    simp only [List.cons_append, List.takeWhile, hc]
    rw [ih (fun y hy => ha y (by simp [hy]))]

theorem matchBrace_digits (a rest : Str) (ha : Digits a) : matchBrace ('{' :: (a ++ '}' :: rest)) = some (a, rest) := by
  have hb : isDecimal '}' = false := by decide
  have ht := takeWhile_stop isDecimal a '}' rest ha.allDecimal hb
  have hne : a.isEmpty = false := by cases a <;> simp_all [Digits]
  unfold matchBrace
  simp only [ht, hne, Bool.false_eq_true, if_false]
  have : (a ++ '}' :: rest).drop a.length = '}' :: rest := by
    have := Srt.drop_len_add a ('}' :: rest) 0
    simpa using this
  simp only [this]

/-- one subtitle line as written -/
structure MLine where
  a : Str
  b : Str
  texts : List Str

def MLine.line (L : MLine) : Str := '{' :: (L.a ++ '}' :: '{' :: (L.b ++ '}' :: join ['|'] L.texts))

structure MLine.WF (L : MLine) : Prop where
  da : Digits L.a
  db : Digits L.b
  notHeader : ¬ (L.a = ['0'] ∧ L.b = ['0'])
  textsNe : L.texts ≠ []
  textsPlain : ∀ t ∈ L.texts, t ≠ [] ∧ '|' ∉ t

theorem matchLine_line (L : MLine) (h : L.WF) : matchLine L.line = some (L.a, L.b, join ['|'] L.texts) := by
  unfold matchLine MLine.line
  rw [matchBrace_digits L.a _ h.da]
  simp only
  rw [matchBrace_digits L.b _ h.db]

theorem splitChar_join' (d : Char) (ls : List Str) (hne : ls ≠ []) (h : ∀ l ∈ ls, d ∉ l) :
    splitChar d (join [d] ls) = ls := by
  induction ls with
  | nil => exact absurd rfl hne
  | cons a t ih =>
    cases t with
    | nil => exact splitChar_no_sep d a (h a (by simp))
    | cons b t' =>
      have : join [d] (a :: b :: t') = a ++ d :: join [d] (b :: t') := by simp [join]
      rw [this, splitChar_append_sep d a _ (h a (by simp)), ih (by simp) (fun l hl => h l (by simp [hl]))]

theorem textNodes_all (acc : List Node) (ts : List Str) (h : ∀ t ∈ ts, t ≠ []) :
    textNodes acc ts = acc ++ Srt.lineNodes ts := by
  induction ts generalizing acc with
  | nil => simp [textNodes, Srt.lineNodes]
  | cons t ts ih =>
    have ht : t ≠ [] := h t (by simp)
    simp only [textNodes, ne_eq, ht, not_false_eq_true, if_true]
    rw [ih _ (fun x hx => h x (by simp [hx]))]
    simp [Srt.lineNodes]

/-- the caption a line stands for at frame rate `fps` -/
def MLine.caption (L : MLine) (fps : Rat) : Caption :=
  ⟨framesToMicro (natOfDigits L.a) fps, framesToMicro (natOfDigits L.b) fps, (Srt.lineNodes L.texts).dropLast⟩

theorem line_nonempty (L : MLine) : L.line.isEmpty = false := rfl

/-- **every line is one caption**, in order -/
theorem readLoop_lines (fps : Rat) : ∀ (Ls : List MLine) (acc : List Caption), (∀ L ∈ Ls, L.WF) →
    readLoop fps acc (Ls.map MLine.line) = .ok (acc ++ Ls.map (·.caption fps)) := by
  intro Ls
  induction Ls with
  | nil => intro acc _; simp [readLoop]
  | cons L Ls ih =>
    intro acc hw
    have h := hw L (by simp)
    have hnodes : textNodes [] (splitChar '|' (join ['|'] L.texts)) = Srt.lineNodes L.texts := by
      rw [splitChar_join' '|' L.texts h.textsNe (fun t ht => (h.textsPlain t ht).2), textNodes_all _ _ (fun t ht => (h.textsPlain t ht).1)]
      rfl
    have hne : (Srt.lineNodes L.texts).isEmpty = false := by
      cases hh : Srt.lineNodes L.texts with
      | nil => exact absurd hh (Srt.lineNodes_ne_nil h.textsNe)
      | cons _ _ => rfl
    have pa : pyInt L.a = .ok (natOfDigits L.a) := by simp [pyInt, h.da.parseNat]
    have pb : pyInt L.b = .ok (natOfDigits L.b) := by simp [pyInt, h.db.parseNat]
    simp only [List.map_cons, readLoop, line_nonempty, Bool.false_eq_true, if_false, matchLine_line L h, h.notHeader, pa, pb,
      hnodes, hne]
    rw [ih _ (fun x hx => hw x (by simp [hx]))]
    simp [MLine.caption]

/-- a `{0}{0}rate` line sets the frame rate for the lines after it and yields no caption -/
theorem readLoop_header (fps f : Rat) (acc : List Caption) (rate : Str) (rest : List Str)
    (hp : parseDecimal (strip rate) = some f) (hf : f ≠ 0) :
    readLoop fps acc (('{' :: '0' :: '}' :: '{' :: '0' :: '}' :: rate) :: rest) = readLoop f acc rest := by
  have hm : matchLine ('{' :: '0' :: '}' :: '{' :: '0' :: '}' :: rate) = some (['0'], ['0'], rate) := by
    have d0 : Digits ['0'] := ⟨by simp, by decide⟩
    have h1 := matchBrace_digits ['0'] ('{' :: '0' :: '}' :: rate) d0
    have h2 := matchBrace_digits ['0'] rate d0
    simp only [List.cons_append, List.nil_append] at h1 h2
    unfold matchLine
    rw [h1]; simp only; rw [h2]
  simp only [readLoop, List.isEmpty_cons, Bool.false_eq_true, if_false, hm, and_self, if_true, hp, hf]

/-- `MicroDVDReader.read` on a document of subtitle lines, each ended by a line feed -/
theorem read_lines (Ls : List MLine) (hne : Ls ≠ []) (hw : ∀ L ∈ Ls, L.WF) (hnb : ∀ L ∈ Ls, Srt.NoBreak L.line) :
    read ((Ls.map MLine.line).flatMap (· ++ ['\n'])) = .ok (Ls.map (·.caption Generated.microdvdReadDefaultFps)) := by
  unfold read
  rw [Srt.splitlines_terminated _ (by intro l hl; obtain ⟨L, hL, rfl⟩ := List.mem_map.mp hl; exact hnb L hL),
    readLoop_lines _ Ls [] hw]
  cases Ls with
  | nil => exact absurd rfl hne
  | cons L Ls => simp

/-- the same with a frame-rate line first -/
theorem read_lines_with_rate (rate : Str) (f : Rat) (Ls : List MLine) (hne : Ls ≠ []) (hw : ∀ L ∈ Ls, L.WF)
    (hp : parseDecimal (strip rate) = some f) (hf : f ≠ 0)
    (hnb : ∀ l ∈ ('{' :: '0' :: '}' :: '{' :: '0' :: '}' :: rate) :: Ls.map MLine.line, Srt.NoBreak l) :
    read ((('{' :: '0' :: '}' :: '{' :: '0' :: '}' :: rate) :: Ls.map MLine.line).flatMap (· ++ ['\n']))
      = .ok (Ls.map (·.caption f)) := by
  unfold read
  rw [Srt.splitlines_terminated _ hnb, readLoop_header _ f [] rate _ hp hf, readLoop_lines _ Ls [] hw]
  cases Ls with
  | nil => exact absurd rfl hne
  | cons L Ls => simp

end PcVerif.MicroDvd
