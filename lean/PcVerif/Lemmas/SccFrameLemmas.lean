import PcVerif.Model.Scc.Reader
namespace PcVerif.Scc

theorem setBuf_frames (r : Reader) (c : Creator) : (r.setBuf c).frames = r.frames ∧ (r.setBuf c).tc = r.tc ∧ (r.setBuf c).off = r.off := by
  cases h : r.active <;> simp [Reader.setBuf, h]

theorem now_frames (r : Reader) : r.now.1.frames = r.frames ∧ r.now.1.tc = r.tc ∧ r.now.1.off = r.off := by
  unfold Reader.now; split <;> simp

theorem popOn_frames (r : Reader) (stop : Rat) : (popOn r stop).frames = r.frames ∧ (popOn r stop).tc = r.tc ∧ (popOn r stop).off = r.off := by
  unfold popOn; split <;> simp

theorem rollUp_frames (r : Reader) : (rollUp r).frames = r.frames ∧ (rollUp r).tc = r.tc ∧ (rollUp r).off = r.off := by
  unfold rollUp
  simp only
  have h1 := setBuf_frames { r with S := store r.S r.buf r.time } {}
  have h2 := now_frames (({ r with S := store r.S r.buf r.time } : Reader).setBuf {})
  simp only at h1 h2 ⊢
  exact ⟨by rw [h2.1, h1.1], by rw [h2.2.1, h1.2.1], by rw [h2.2.2, h1.2.2]⟩

theorem flush_frames (r : Reader) (old : Mode) : (flush r old).frames = r.frames ∧ (flush r old).tc = r.tc ∧ (flush r old).off = r.off := by
  unfold flush
  cases old with
  | pop => simp only; split; exact ⟨rfl, rfl, rfl⟩; exact popOn_frames r 0
  | roll => simp only; split; exact ⟨rfl, rfl, rfl⟩; exact rollUp_frames r
  | paint =>
    simp only; split; exact ⟨rfl, rfl, rfl⟩
    exact setBuf_frames _ _

theorem setActive_frames (r : Reader) (k : Mode) : (setActive r k).frames = r.frames ∧ (setActive r k).tc = r.tc ∧ (setActive r k).off = r.off := by
  unfold setActive
  simp only
  split
  · exact flush_frames r r.active
  · exact ⟨rfl, rfl, rfl⟩

/-- bookkeeping fields a code word never changes, except that `word` counts one frame -/
def Same (a b : Reader) : Prop := a.frames = b.frames ∧ a.tc = b.tc ∧ a.off = b.off

theorem Same.refl (a : Reader) : Same a a := ⟨rfl, rfl, rfl⟩
theorem Same.trans {a b c : Reader} (h1 : Same a b) (h2 : Same b c) : Same a c :=
  ⟨h1.1.trans h2.1, h1.2.1.trans h2.2.1, h1.2.2.trans h2.2.2⟩

theorem same_setBuf (r : Reader) (c : Creator) : Same (r.setBuf c) r := setBuf_frames r c
theorem same_now (r : Reader) : Same r.now.1 r := now_frames r
theorem same_popOn (r : Reader) (stop : Rat) : Same (popOn r stop) r := popOn_frames r stop
theorem same_rollUp (r : Reader) : Same (rollUp r) r := rollUp_frames r
theorem same_setActive (r : Reader) (k : Mode) : Same (setActive r k) r := setActive_frames r k

theorem command_same (r : Reader) (w : String) (nxt : Option String) : Same (command r w nxt) r := by
  unfold command
  split
  · exact same_setActive r .pop
  split
  · simp only
    have h1 := same_setActive r .paint
    generalize setActive r .paint = r1 at h1
    have h2 : Same (if !r1.paint.isEmpty then { r1 with S := store r1.S r1.paint r1.time, paint := {} } else r1) r1 := by
      split <;> exact ⟨rfl, rfl, rfl⟩
    generalize (if !r1.paint.isEmpty then { r1 with S := store r1.S r1.paint r1.time, paint := {} } else r1) = r2 at h2
    have h3 := same_now r2
    exact ⟨by simp [h3.1, h2.1, h1.1], by simp [h3.2.1, h2.2.1, h1.2.1], by simp [h3.2.2, h2.2.2, h1.2.2]⟩
  split
  · simp only
    have h1 := same_setActive r .roll
    generalize setActive r .roll = r1 at h1
    have h2 : Same (if !r1.roll.isEmpty then { r1 with S := store r1.S r1.roll r1.time, roll := {} } else r1) r1 := by
      split <;> exact ⟨rfl, rfl, rfl⟩
    generalize (if !r1.roll.isEmpty then { r1 with S := store r1.S r1.roll r1.time, roll := {} } else r1) = r2 at h2
    have h3 := same_now r2
    exact ⟨by simp [h3.1, h2.1, h1.1], by simp [h3.2.1, h2.2.1, h1.2.1], by simp [h3.2.2, h2.2.2, h1.2.2]⟩
  split
  · exact same_setBuf r {}
  split
  · simp only
    have h3 := same_now r
    generalize hn : r.now = p at h3
    obtain ⟨r1, t⟩ := p
    simp only at h3 ⊢
    have h4 : Same (if ({ r1 with time := t } : Reader).queue.isEmpty then { r1 with time := t } else popOn { r1 with time := t } t) r1 := by
      split
      · exact ⟨rfl, rfl, rfl⟩
      · exact same_popOn _ t
    generalize (if ({ r1 with time := t } : Reader).queue.isEmpty then { r1 with time := t } else popOn { r1 with time := t } t) = r2 at h4
    split
    · exact h4.trans h3
    · exact (same_setBuf _ _).trans (Same.trans ⟨rfl, rfl, rfl⟩ (h4.trans h3))
  split
  · split
    · exact Same.refl r
    · exact same_rollUp r
  split
  · simp only
    have h3 := same_now r
    generalize hn : r.now = p at h3
    obtain ⟨r1, t⟩ := p
    exact (same_popOn r1 t).trans h3
  · simp only
    generalize interpret r.buf r.tr w nxt = q
    obtain ⟨c, t, e⟩ := q
    exact Same.trans ⟨rfl, rfl, rfl⟩ (same_setBuf r c)

theorem handleDouble_same (r : Reader) (w : String) : Same (handleDouble r w).2 r := by
  unfold handleDouble
  simp only
  repeat' split
  all_goals exact ⟨rfl, rfl, rfl⟩

/-- **every code word counts one frame** — whatever it is (command, preamble, character word, a skipped second copy) -/
theorem word_counts (r : Reader) (w : String) (nxt : Option String) :
    (word r w nxt).frames = r.frames + 1 ∧ (word r w nxt).tc = r.tc ∧ (word r w nxt).off = r.off := by
  unfold word
  have h0 := handleDouble_same r w
  generalize handleDouble r w = p at h0
  obtain ⟨sw, r1⟩ := p
  simp only at h0 ⊢
  split
  · exact ⟨by simp [h0.1], h0.2.1, h0.2.2⟩
  · simp only
    have key : ∀ x : Reader, Same x r1 → ({ x with frames := x.frames + 1 } : Reader).frames = r.frames + 1 ∧
        ({ x with frames := x.frames + 1 } : Reader).tc = r.tc ∧ ({ x with frames := x.frames + 1 } : Reader).off = r.off := by
      intro x hx
      exact ⟨by simp [hx.1, h0.1], by simp [hx.2.1, h0.2.1], by simp [hx.2.2, h0.2.2]⟩
    apply key
    split
    · exact command_same r1 w nxt
    · split
      · generalize addChars r1.buf r1.tr _ = q
        obtain ⟨c, t⟩ := q
        exact Same.trans ⟨rfl, rfl, rfl⟩ (same_setBuf r1 c)
      · split
        · generalize addChars _ r1.tr _ = q
          obtain ⟨c, t⟩ := q
          exact Same.trans ⟨rfl, rfl, rfl⟩ (same_setBuf r1 c)
        · split
          · generalize addChars r1.buf r1.tr _ = q
            obtain ⟨c, t⟩ := q
            exact Same.trans ⟨rfl, rfl, rfl⟩ (same_setBuf r1 c)
          · exact Same.refl r1

/-- a stream word as `words` takes it: four characters once stripped -/
def IsWord (w : String) : Prop := (String.ofList (Str.strip w.toList)).length = 4

/-- **after `k` code words of a line the frame counter is `k`**: the time of whatever comes next is the line's time code
    plus one frame per preceding code word -/
theorem words_count : ∀ (ws : List String) (r : Reader), (∀ w ∈ ws, IsWord w) →
    (words r ws).frames = r.frames + ws.length ∧ (words r ws).tc = r.tc ∧ (words r ws).off = r.off := by
  intro ws
  induction ws with
  | nil => intro r _; simp [words]
  | cons w ws ih =>
    intro r h
    have hw : (String.ofList (Str.strip w.toList)).length = 4 := h w (by simp)
    have hcons : words r (w :: ws) = words (word r (String.ofList (Str.strip w.toList)) ws.head?) ws := by
      conv => lhs; unfold words
      simp only [hw, if_true]
    rw [hcons]
    have h1 := word_counts r (String.ofList (Str.strip w.toList)) ws.head?
    have h2 := ih (word r (String.ofList (Str.strip w.toList)) ws.head?) (fun x hx => h x (by simp [hx]))
    refine ⟨by rw [h2.1, h1.1, List.length_cons]; omega, by rw [h2.2.1, h1.2.1], by rw [h2.2.2, h1.2.2]⟩

/-- **the End-Of-Caption code stamps the current instant**: the time the reader records is that of the line's time code
    plus the frames counted so far, minus the offset -/
theorem eoc_time (r : Reader) (nxt : Option String) (t : Rat) (h : timeOf r.tc r.frames r.off = some t) :
    (command r "942f" nxt).time = t := by
  have c1 : ("942f" == "9420") = false := by decide
  have c2 : ("942f" == "9429") = false := by decide
  have c3 : ("942f" == "9425" || "942f" == "9426" || "942f" == "94a7") = false := by decide
  have c4 : ("942f" == "94ae") = false := by decide
  unfold command
  simp only [c1, c2, c3, c4, Bool.false_eq_true, if_false, beq_self_eq_true, if_true]
  have hn : r.now = (r, t) := by unfold Reader.now; rw [h]
  rw [hn]
  simp only
  have tp : ∀ x : Reader, ∀ s : Rat, (popOn x s).time = x.time := by
    intro x s; unfold popOn; split <;> rfl
  have tb : ∀ (x : Reader) (c : Creator), (x.setBuf c).time = x.time := by
    intro x c; cases hh : x.active <;> simp [Reader.setBuf, hh]
  split
  · split
    · rfl
    · rw [tb]
  · split
    · rw [tp]
    · rw [tb, tp]

end PcVerif.Scc
