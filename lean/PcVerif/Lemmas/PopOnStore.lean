/-
  C05 / C17: what `create_and_store` makes of the buffer of a written caption — one caption whose nodes are the rows' texts
  with breaks between them, laid out at the first row's position.
-/
import PcVerif.Lemmas.PopOnShape
namespace PcVerif.SccW
open Str Scc PcVerif.Props.C16

/-- only text and break nodes -/
def PlainNodes (l : List INode) : Prop := ∀ n ∈ l, n.kind = .text ∨ n.kind = .brk

theorem plain_bufNodes (p : Pos) (ls : List Str) : PlainNodes (bufNodes p ls) := by
  cases ls with
  | nil => intro n hn; simp [bufNodes] at hn
  | cons l ls =>
    intro n hn
    simp only [bufNodes, List.mem_cons, List.mem_flatMap, List.not_mem_nil, or_false] at hn
    rcases hn with rfl | ⟨m, _, rfl | rfl⟩
    · exact Or.inl rfl
    · exact Or.inr rfl
    · exact Or.inl rfl

theorem skipInitialOff_plain (b : Bool) : ∀ (l : List INode), PlainNodes l → skipInitialOff b l = l
  | [], _ => rfl
  | n :: ns, h => by
    have hn := h n (by simp)
    have ih := skipInitialOff_plain b ns (fun m hm => h m (by simp [hm]))
    rcases hn with e | e <;> simp [skipInitialOff, e, ih]

theorem skipRedundant_plain (st : Option Bool) : ∀ (l : List INode), PlainNodes l → skipRedundant st l = l
  | [], _ => rfl
  | n :: ns, h => by
    have hn := h n (by simp)
    have ih := skipRedundant_plain st ns (fun m hm => h m (by simp [hm]))
    rcases hn with e | e <;> simp [skipRedundant, e, ih]

theorem closeBeforeRepos_plain (on : Bool) (q : Pos) : ∀ (l : List INode), PlainNodes l → closeBeforeRepos on q l = l
  | [], _ => rfl
  | n :: ns, h => by
    have hn := h n (by simp)
    have ih := closeBeforeRepos_plain on q ns (fun m hm => h m (by simp [hm]))
    rcases hn with e | e <;> simp [closeBeforeRepos, e, ih]

theorem finalState_plain (on : Bool) (q : Pos) : ∀ (l : List INode), PlainNodes l → finalState on q l = (on, q)
  | [], _ => rfl
  | n :: ns, h => by
    have hn := h n (by simp)
    have ih := finalState_plain on q ns (fun m hm => h m (by simp [hm]))
    rcases hn with e | e <;> simp [finalState, e, ih]

theorem removeOnOff_plain : ∀ (l : List INode), PlainNodes l → removeOnOff none l = l
  | [], _ => rfl
  | n :: ns, h => by
    have hn := h n (by simp)
    have ih := removeOnOff_plain ns (fun m hm => h m (by simp [hm]))
    rcases hn with e | e <;> simp [removeOnOff, e, ih]

theorem removeOffOn_plain : ∀ (l : List INode), PlainNodes l → removeOffOn none l = l
  | [], _ => rfl
  | n :: ns, h => by
    have hn := h n (by simp)
    have ih := removeOffOn_plain ns (fun m hm => h m (by simp [hm]))
    rcases hn with e | e <;> simp [removeOffOn, e, ih]

/-- a row as the writer lays it out: not empty, no white space at its end -/
def Tidy (l : Str) : Prop := l ≠ [] ∧ rstrip l = l

theorem skipEmptyText_bufNodes (p : Pos) (ls : List Str) (h : ∀ l ∈ ls, l ≠ []) : skipEmptyText (bufNodes p ls) = bufNodes p ls := by
  unfold skipEmptyText
  apply List.filter_eq_self.mpr
  intro n hn
  cases ls with
  | nil => simp [bufNodes] at hn
  | cons l ls =>
    simp only [bufNodes, List.mem_cons, List.mem_flatMap, List.not_mem_nil, or_false] at hn
    rcases hn with rfl | ⟨m, hm, rfl | rfl⟩
    · have := h l (by simp); simp [this]
    · simp
    · have := h m (by simp [hm]); simp [this]

theorem dropTrailingBreaks_text_last : ∀ (pre : List INode) (n : INode), n.kind = .text → dropTrailingBreaks (pre ++ [n]) = pre ++ [n]
  | [], n, h => by simp [dropTrailingBreaks, h]
  | m :: ms, n, h => by
    have ih := dropTrailingBreaks_text_last ms n h
    simp only [List.cons_append, dropTrailingBreaks, ih]
    simp

theorem rstrip_bufNodes (p : Pos) : ∀ (ls : List Str) (l : Str), (∀ m ∈ l :: ls, Tidy m) →
    rstripBeforeBreak (bufNodes p (l :: ls)) = bufNodes p (l :: ls)
  | [], l, h => by
    have := (h l (by simp)).2
    simp [bufNodes, rstripBeforeBreak, this]
  | m :: ms, l, h => by
    have ih := rstrip_bufNodes p ms m (fun x hx => h x (by simp at hx ⊢; right; exact hx))
    have e : bufNodes p (l :: m :: ms) = ⟨.text, l, p⟩ :: ⟨.brk, [], p⟩ :: bufNodes p (m :: ms) := by simp [bufNodes]
    have hl := (h l (by simp))
    rw [e]
    have e2 : bufNodes p (m :: ms) = ⟨.text, m, p⟩ :: ms.flatMap (fun x => [⟨.brk, [], p⟩, ⟨.text, x, p⟩]) := rfl
    rw [e2] at ih ⊢
    simp only [rstripBeforeBreak, hl.2, ih]
    simp

/-- the italics passes leave the buffer of a written caption as it is -/
theorem formatItalics_bufNodes (p : Pos) (l : Str) (ls : List Str) (h : ∀ m ∈ l :: ls, Tidy m) :
    formatItalics (bufNodes p (l :: ls)) = bufNodes p (l :: ls) := by
  have hp := plain_bufNodes p (l :: ls)
  unfold formatItalics
  rw [skipInitialOff_plain false _ hp, skipEmptyText_bufNodes p _ (fun m hm => (h m hm).1), skipRedundant_plain none _ hp,
    closeBeforeRepos_plain false (0, 0) _ hp]
  unfold ensureFinalClose
  rw [finalState_plain false (0, 0) _ hp]
  simp only [Bool.false_eq_true, if_false]
  rw [removeOnOff_plain _ hp, removeOffOn_plain _ hp]
  obtain ⟨pre, s, e⟩ := bufNodes_last p ls l
  rw [e, dropTrailingBreaks_text_last pre _ rfl, ← e]
  exact rstrip_bufNodes p ls l h

/-! ### splitting into captions -/

def cnode (n : INode) : CNode := if n.kind = .text then .text n.text n.pos else .brk n.pos

theorem toCaps_plain (a b : Rat) (p : Pos) : ∀ (ns : List INode) (pre : List Cap) (c : Cap),
    (∀ n ∈ ns, n.pos = p ∧ ((n.kind = .text ∧ n.text ≠ []) ∨ n.kind = .brk)) →
    toCaps a b (pre ++ [c]) ns = pre ++ [{ c with nodes := c.nodes ++ ns.map cnode,
                                                  layout := if ns.any (fun n => n.kind == .text) then some p else c.layout }]
  | [], pre, c, _ => by simp [toCaps]
  | n :: ns, pre, c, h => by
    obtain ⟨hp, hk⟩ := h n (by simp)
    have ih := fun c' => toCaps_plain a b p ns pre c' (fun m hm => h m (by simp [hm]))
    rcases hk with ⟨hk, hne⟩ | hk
    · have he : n.text.isEmpty = false := by cases ht : n.text <;> simp_all
      simp only [toCaps, hk, he, Bool.false_eq_true, if_false, List.getLast?_append, List.getLast?_singleton, Option.some_or,
        List.dropLast_concat]
      rw [ih]
      simp [cnode, hk, hp, List.append_assoc]
    · simp only [toCaps, hk, List.getLast?_append, List.getLast?_singleton, Option.some_or, List.dropLast_concat]
      rw [ih]
      simp [cnode, hk, List.append_assoc]

/-- the caption nodes of a caption's rows -/
def capNodes (p : Pos) : List Str → List CNode
  | [] => []
  | l :: ls => .text l p :: ls.flatMap (fun m => [.brk p, .text m p])

theorem map_cnode_bufNodes (p : Pos) (ls : List Str) : (bufNodes p ls).map cnode = capNodes p ls := by
  cases ls with
  | nil => rfl
  | cons l ls =>
    simp only [bufNodes, capNodes, List.map_cons, List.map_flatMap]
    simp [cnode, List.flatMap]

theorem toCaps_bufNodes (a b : Rat) (p : Pos) (l : Str) (ls : List Str) (h : ∀ m ∈ l :: ls, m ≠ []) :
    toCaps a b [{ start := a, stop := b }] (bufNodes p (l :: ls)) = [{ start := a, stop := b, nodes := capNodes p (l :: ls), layout := some p }] := by
  have := toCaps_plain a b p (bufNodes p (l :: ls)) [] { start := a, stop := b } (by
    intro n hn
    simp only [bufNodes, List.mem_cons, List.mem_flatMap, List.not_mem_nil, or_false] at hn
    rcases hn with rfl | ⟨m, hm, rfl | rfl⟩
    · exact ⟨rfl, Or.inl ⟨rfl, h l (by simp)⟩⟩
    · exact ⟨rfl, Or.inr rfl⟩
    · exact ⟨rfl, Or.inl ⟨rfl, h m (by simp [hm])⟩⟩)
  simp only [List.nil_append] at this
  rw [this, map_cnode_bufNodes]
  simp [bufNodes]

/-! ### storing -/

/-- a stored caption without its times: its nodes and its position -/
def view (c : Cap) : List CNode × Option Pos := (c.nodes, c.layout)

theorem map_modify_view (f : Cap → Cap) (h : ∀ a, view (f a) = view a) : ∀ (l : List Cap) (i : Nat), (l.modify i f).map view = l.map view
  | [], _ => by simp
  | a :: l, 0 => by simp [h]
  | a :: l, i + 1 => by simp [map_modify_view f h l i]

theorem setEnd_view (stash : List Cap) (idxs : List Nat) (e : Rat) : (setEnd stash idxs e).map view = stash.map view := by
  unfold setEnd
  induction idxs generalizing stash with
  | nil => rfl
  | cons i is ih =>
    simp only [List.foldl_cons]
    rw [ih]
    exact map_modify_view (fun c => { c with stop := e }) (fun _ => rfl) stash i

/-- **storing a written caption.** `create_and_store` on the buffer of a written caption appends exactly ONE caption: its nodes
    are the rows' texts with breaks between them, its layout the first row's position; earlier captions may be retimed, never
    changed otherwise -/
theorem store_written (S : Stash) (c : Creator) (a b : Rat) (p : Pos) (l : Str) (ls : List Str)
    (hc : c.coll = bufNodes p (l :: ls)) (ht : ∀ m ∈ l :: ls, Tidy m) :
    (store S c a b).stash.map view = S.stash.map view ++ [(capNodes p (l :: ls), some p)] := by
  have hne : c.isEmpty = false := isEmpty_bufNodes c p l ls (ht l (by simp)).1 hc
  unfold store
  simp only [hne, Bool.false_eq_true, if_false]
  rw [hc, formatItalics_bufNodes p l ls ht, toCaps_bufNodes a b p l ls (fun m hm => (ht m hm).1)]
  have hf : ([{ start := a, stop := b, nodes := capNodes p (l :: ls), layout := some p }] : List Cap).filter (fun cp => !cp.nodes.isEmpty)
      = [{ start := a, stop := b, nodes := capNodes p (l :: ls), layout := some p }] := by
    simp [capNodes]
  rw [hf]
  simp only [List.map_append, List.map_cons, List.map_nil, view]
  congr 1
  cases hlb : S.lastBatch.getLast? with
  | none => rfl
  | some li =>
    simp only
    cases hs : S.stash[li]? with
    | none => rfl
    | some lc =>
      simp only
      split
      · exact setEnd_view _ _ _
      · rfl

/-! ### the stored captions through a caption's words -/

/-- what showing the head of the queue does to the stored captions -/
def popS (S : Stash) (q : List (Creator × Rat)) (t : Rat) : Stash :=
  match q with
  | [] => S
  | (c, st) :: _ => store S c st t

theorem popOn_S (r : Reader) (t : Rat) : (popOn r t).S = popS r.S r.queue t := by
  unfold popOn popS
  cases r.queue with
  | nil => rfl
  | cons x xs => obtain ⟨c, st⟩ := x; rfl

theorem command_edm_S (r : Reader) (nxt : Option String) (ha : r.active = .pop) :
    (command r "942c" nxt).S = popS r.S r.queue r.now.2 := by
  by_cases hq : r.queue.isEmpty = true
  · have e : command r "942c" nxt = { r with pop := { r.pop with hidden := 0 }, err := r.err || false } := by
      unfold command
      simp only [hq]
      simp only [show ("942c" == "9420") = false by decide, show ("942c" == "9429") = false by decide,
        show ("942c" == "9425") = false by decide, show ("942c" == "9426") = false by decide,
        show ("942c" == "94a7") = false by decide, show ("942c" == "94ae") = false by decide,
        show ("942c" == "942f") = false by decide, show ("942c" == "94ad") = false by decide,
        Bool.or_self, Bool.false_eq_true, if_false, Bool.not_true, Bool.and_false]
      rw [buf_pop r ha, interpret_edm, setBuf_pop _ _ ha]
    rw [e]
    have : r.queue = [] := List.isEmpty_iff.mp hq
    simp [popS, this]
  · have hq' : r.queue.isEmpty = false := by simpa using hq
    have e : command r "942c" nxt = popOn r.now.1 r.now.2 := by
      unfold command
      simp [hq']
    obtain ⟨n1, n2, _⟩ := now_fst r
    rw [e, popOn_S, n1, n2]

theorem command_eoc_S (r : Reader) (nxt : Option String) (ha : r.active = .pop) (hne : r.pop.isEmpty = false) :
    (command r "942f" nxt).S = popS r.S r.queue r.now.2 := by
  have e : command r "942f" nxt = eocStep { r.now.1 with time := r.now.2 } r.now.2 := by
    unfold command eocStep
    simp
  rw [e]
  obtain ⟨n1, n2, n3, n4, _, _, _, _⟩ := now_fst r
  generalize hr2 : ({ r.now.1 with time := r.now.2 } : Reader) = r2
  have a2 : r2.active = .pop := by rw [← hr2]; simpa [n3] using ha
  have p2 : r2.pop = r.pop := by rw [← hr2]; exact n4
  have q2 : r2.queue = r.queue := by rw [← hr2]; exact n2
  have s2 : r2.S = r.S := by rw [← hr2]; exact n1
  unfold eocStep
  have r3 : ∃ r3 : Reader, (if r2.queue.isEmpty then r2 else popOn r2 r.now.2) = r3 ∧ r3.active = .pop ∧ r3.pop = r.pop ∧
      r3.S = popS r.S r.queue r.now.2 := by
    by_cases hq : r2.queue.isEmpty = true
    · have : r2.queue = [] := List.isEmpty_iff.mp hq
      refine ⟨r2, by simp [hq], a2, p2, ?_⟩
      rw [s2, ← q2, this]; rfl
    · obtain ⟨g1, _, g3, _⟩ := popOn_fields r2 r.now.2
      exact ⟨popOn r2 r.now.2, by simp [hq], by rw [g1, a2], by rw [g3, p2], by rw [popOn_S, s2, q2]⟩
  obtain ⟨r3, e3, a3, p3, s3⟩ := r3
  simp only [e3]
  have hb3 : r3.buf.isEmpty = false := by rw [buf_pop r3 a3, p3]; exact hne
  rw [if_neg (by simp [hb3])]
  have ha3' : ({ r3 with queue := r3.queue ++ [(r3.buf, r.now.2)] } : Reader).active = .pop := a3
  rw [setBuf_pop _ _ ha3']
  exact s3

/-- `caption_exact` with the stored captions: the two older captions that may leave the queue are stored, in order -/
theorem caption_exact_S (l0 : List Char) (ls : List (List Char)) (rest : List String) (r : Reader) (hn : ls.length + 1 ≤ 15)
    (hb : ∀ l ∈ l0 :: ls, l ≠ [] ∧ ∀ c ∈ l, Basic c) (hq : Quiet r.lastCmd) (ha : r.active = .pop) :
    ∃ r', words r (captionWords (l0 :: ls) ++ rest) = words r' rest ∧ r'.lastCmd = "" ∧ r'.active = .pop ∧ r'.pop = {} ∧
      ∃ c t t1 t2, r'.queue = r.queue.tail.tail ++ [(c, t)] ∧ c.coll = bufNodes (16 - (ls.length + 1), 0) (l0 :: ls) ∧
        r'.S = popS (popS r.S r.queue t1) r.queue.tail t2 := by
  unfold captionWords
  simp only [List.cons_append, List.append_assoc, List.nil_append, List.length_cons]
  obtain ⟨r1, e1, l1, a1, s1, q1, p1⟩ := enm_pair_exact r _ hq ha
  obtain ⟨r2, e2, l2, a2, s2, q2, p2⟩ := rcl_pair_exact r1 _ (Or.inl l1) a1
  have hp2 : r2.pop = {} := by rw [p2, p1]
  obtain ⟨r3, e3, s3, q3, in3⟩ := rows_exact l0 ls (16 - (ls.length + 1)) ("942c" :: "942c" :: "942f" :: "942f" :: rest) r2
    (by omega) (by omega) hb a2 (Or.inl l2) (by rw [hp2]) (by rw [hp2])
  have hfa : (firstCopy r3 "942c").active = .pop := in3.active
  obtain ⟨c1, c2, c3, c4, c5⟩ := command_edm_exact (firstCopy r3 "942c") (some "942c") hfa
  have cS := command_edm_S (firstCopy r3 "942c") (some "942c") hfa
  obtain ⟨r4, e4, l4, a4, s4, q4, p4⟩ := ctl_pair' r3 "942c" ("942f" :: "942f" :: rest) ctl_fixed.2.2.1 in3.quiet (by rw [c2]; rfl)
  have hfa5 : (firstCopy r4 "942f").active = .pop := by show r4.active = .pop; rw [a4, c1]
  have hcoll4 : r4.pop.coll = bufNodes (16 - (ls.length + 1), 0) (l0 :: ls) := by
    rw [p4, c3]; exact in3.coll
  have hne5 : (firstCopy r4 "942f").pop.isEmpty = false :=
    isEmpty_bufNodes r4.pop _ l0 ls (hb l0 (by simp)).1 hcoll4
  obtain ⟨d1, d2, d3, d4⟩ := command_eoc_exact (firstCopy r4 "942f") (some "942f") hfa5 hne5
  have dS := command_eoc_S (firstCopy r4 "942f") (some "942f") hfa5 hne5
  obtain ⟨r5, e5, l5, a5, s5, q5, p5⟩ := ctl_pair' r4 "942f" rest ctl_fixed.2.2.2 (Or.inl l4) (by rw [d2]; rfl)
  have hq3 : r3.queue = r.queue := by rw [q3, q2, q1]
  have hs3 : r3.S = r.S := by rw [s3, s2, s1]
  have hq4 : r4.queue = r.queue.tail := by
    rw [q4, c5]; show r3.queue.tail = _; rw [hq3]
  refine ⟨r5, by rw [e1, e2, e3, e4, e5], l5, by rw [a5, d1], by rw [p5, d3], r4.pop, (firstCopy r4 "942f").now.2,
    (firstCopy r3 "942c").now.2, (firstCopy r4 "942f").now.2, ?_, hcoll4, ?_⟩
  · rw [q5, d4]
    show r4.queue.tail ++ _ = _
    rw [hq4]
    rfl
  · rw [s5, dS]
    show popS r4.S r4.queue _ = _
    rw [s4, cS, hq4]
    show popS (popS r3.S r3.queue _) _ _ = _
    rw [hs3, hq3]

/-! ### a whole file: one stored caption per written caption -/

/-- a caption as it comes out of the reader, without its times: the rows' texts with breaks between them, laid out at the
    first row (rows are bottom aligned: row `16 − n`, column 0) -/
def capView (ls : List Str) : List CNode × Option Pos := (capNodes (16 - ls.length, 0) ls, some (16 - ls.length, 0))

/-- rows as the writer lays them out -/
def GoodLines (ls : List Str) : Prop := ls ≠ [] ∧ ls.length ≤ 15 ∧ ∀ m ∈ ls, Tidy m ∧ ∀ c ∈ m, Basic c

/-- the reader between two captions of a written file: the captions read so far are stored, except at most one that waits
    in the queue -/
structure Track (r : Reader) (done : List (List Str)) : Prop where
  lastCmd : r.lastCmd = ""
  active : r.active = .pop
  queued : ∃ qs : List (List Str), qs.length ≤ 1 ∧ (∀ ls ∈ qs, GoodLines ls) ∧
    r.queue.map (·.1.coll) = qs.map (fun ls => bufNodes (16 - ls.length, 0) ls) ∧
    r.S.stash.map view ++ qs.map capView = done.map capView

theorem popS_view (S : Stash) (q : List (Creator × Rat)) (t : Rat) (qs : List (List Str)) (hl : qs.length ≤ 1)
    (hg : ∀ ls ∈ qs, GoodLines ls) (hq : q.map (·.1.coll) = qs.map (fun ls => bufNodes (16 - ls.length, 0) ls)) :
    (popS S q t).stash.map view = S.stash.map view ++ qs.map capView ∧ q.tail = [] := by
  cases qs with
  | nil =>
    have : q = [] := by simpa using hq
    subst this
    exact ⟨by simp [popS], rfl⟩
  | cons ls rest =>
    have hr : rest = [] := by
      cases rest with
      | nil => rfl
      | cons _ _ => simp at hl
    subst hr
    cases q with
    | nil => simp at hq
    | cons x xs =>
      obtain ⟨c, st⟩ := x
      simp only [List.map_cons, List.map_nil, List.cons.injEq, List.map_eq_nil_iff] at hq
      obtain ⟨hc, hxs⟩ := hq
      subst hxs
      obtain ⟨hne, _, ht⟩ := hg ls (by simp)
      obtain ⟨l, ls', rfl⟩ : ∃ l ls', ls = l :: ls' := by
        cases ls with
        | nil => exact absurd rfl hne
        | cons a b => exact ⟨a, b, rfl⟩
      refine ⟨?_, rfl⟩
      simp only [popS]
      rw [store_written S c st t _ l ls' hc (fun m hm => (ht m hm).1)]
      rfl

/-- one caption of a written file: afterwards it waits in the queue and everything before it is stored -/
theorem fileCap_track (c : FileCap) (hc : c.ok) (hg : GoodLines c.lines) (r : Reader) (done : List (List Str)) (hr : Track r done) :
    Track (c.fileLines.foldl translateLine r) (done ++ [c.lines]) := by
  obtain ⟨h1, h2, h3, h4⟩ := hc
  obtain ⟨l0, a0, qs, hql, hqg, hqc, hqv⟩ := hr
  obtain ⟨hne, _, hgl⟩ := hg
  obtain ⟨l, ls, hls⟩ : ∃ l ls, c.lines = l :: ls := by
    cases h : c.lines with
    | nil => exact absurd h hne
    | cons a b => exact ⟨a, b, rfl⟩
  -- the caption's own line
  have step1 : ∃ r1, translateLine r (c.ts ++ '\t' :: joinWords (captionWords c.lines)) = r1 ∧ r1.lastCmd = "" ∧ r1.active = .pop ∧
      r1.queue.map (·.1.coll) = [bufNodes (16 - c.lines.length, 0) c.lines] ∧
      r1.S.stash.map view = r.S.stash.map view ++ qs.map capView := by
    rw [translateLine_words r c.ts _ h1 (by simp [captionWords]) (captionWords_hex c.lines h2 h3)]
    have hb : ∀ m ∈ l :: ls, m ≠ [] ∧ ∀ x ∈ m, Basic x := by
      intro m hm
      have := hgl m (by rw [hls]; exact hm)
      exact ⟨this.1.1, this.2⟩
    have hn : ls.length + 1 ≤ 15 := by have := h2; rw [hls] at this; simpa using this
    obtain ⟨r', e, l', a', _, cc, t, t1, t2, q', c', s'⟩ := caption_exact_S l ls [] { r with tc := String.ofList c.ts, frames := 0 } hn hb
      (Or.inl l0) a0
    rw [List.append_nil] at e
    rw [hls, e]
    simp only [words]
    obtain ⟨v1, tl1⟩ := popS_view r.S r.queue t1 qs hql hqg hqc
    refine ⟨r', rfl, l', a', ?_, ?_⟩
    · rw [q']
      show (r.queue.tail.tail ++ [(cc, t)]).map _ = _
      rw [tl1]
      simp [c']
    · rw [s']
      show (popS (popS r.S r.queue t1) r.queue.tail t2).stash.map view = _
      rw [tl1]
      simp only [popS]
      exact v1
  obtain ⟨r1, e1, l1, a1, q1, s1⟩ := step1
  have hdone1 : r1.S.stash.map view ++ [c.lines].map capView = (done ++ [c.lines]).map capView := by
    rw [s1, hqv]; simp
  have hg1 : ∀ x ∈ [c.lines], GoodLines x := by
    intro x hx; simp at hx; subst hx; exact ⟨hne, h2, hgl⟩
  unfold FileCap.fileLines
  simp only [List.foldl_append, List.foldl_cons, List.foldl_nil, e1, translateLine_empty]
  cases hcl : c.clear with
  | none =>
    simp only [List.foldl_nil]
    exact ⟨l1, a1, [c.lines], by simp, hg1, by simpa using q1, hdone1⟩
  | some t =>
    simp only [List.foldl_cons, List.foldl_nil, translateLine_empty]
    have hx : ∀ w ∈ ["942c", "942c"], HexWord w := by
      intro w hw; apply hexWord_of_B; revert w; decide
    rw [translateLine_words r1 t _ (h4 t hcl) (by simp) hx]
    -- 942c 942c
    generalize hrs : ({ r1 with tc := String.ofList t, frames := 0 } : Reader) = rs
    have ls' : rs.lastCmd = "" := by rw [← hrs]; exact l1
    have as' : rs.active = .pop := by rw [← hrs]; exact a1
    have qs' : rs.queue = r1.queue := by rw [← hrs]
    have ss' : rs.S = r1.S := by rw [← hrs]
    have hfa : (firstCopy rs "942c").active = .pop := as'
    obtain ⟨c1, c2, c3, c4, c5⟩ := command_edm_exact (firstCopy rs "942c") (some "942c") hfa
    have cS := command_edm_S (firstCopy rs "942c") (some "942c") hfa
    obtain ⟨r2, e2, l2, a2, s2, q2, p2⟩ := ctl_pair' rs "942c" [] ctl_fixed.2.2.1 (Or.inl ls') (by rw [c2]; rfl)
    rw [e2]
    simp only [words]
    have hq1' : r1.queue.map (·.1.coll) = [c.lines].map (fun ls => bufNodes (16 - ls.length, 0) ls) := by simpa using q1
    obtain ⟨v, tl⟩ := popS_view r1.S r1.queue (firstCopy rs "942c").now.2 [c.lines] (by simp) hg1 hq1'
    refine ⟨l2, by rw [a2, c1], [], by simp, by simp, ?_, ?_⟩
    · rw [q2, c5]
      show (rs.queue.tail).map _ = _
      rw [qs', tl]; rfl
    · rw [s2, cS]
      show (popS rs.S rs.queue _).stash.map view ++ _ = _
      rw [ss', qs', v]
      simpa using hdone1

theorem file_track : ∀ (caps : List FileCap), (∀ c ∈ caps, c.ok ∧ GoodLines c.lines) → ∀ (r : Reader) (done : List (List Str)),
    Track r done → Track ((caps.flatMap FileCap.fileLines).foldl translateLine r) (done ++ caps.map (·.lines)) := by
  intro caps
  induction caps with
  | nil => intro _ r done hr; simpa using hr
  | cons c cs ih =>
    intro h r done hr
    obtain ⟨hc, hg⟩ := h c (by simp)
    have t1 := fileCap_track c hc hg r done hr
    have t2 := ih (fun x hx => h x (by simp [hx])) _ _ t1
    simp only [List.flatMap_cons, List.foldl_append, List.map_cons]
    simpa [List.append_assoc] using t2

/-- **C17 (one caption per caption, the rows as its lines, at the first row's position).** for every file of pop-on captions
    laid out as the writer lays them out (`fileText`: any time codes, any number of captions, each of 1–15 non-empty rows of
    basic characters without white space at the row ends, clearing lines or not), and any reading offset: the captions the
    reader model has stored at the end are — apart from their times — exactly one per written caption, in order, each made of
    its rows' texts with break nodes between them and laid out at row `16 − n`, column 0 -/
theorem file_stored (caps : List FileCap) (hok : ∀ c ∈ caps, c.ok ∧ GoodLines c.lines) (off : Rat) :
    (run (fileText caps) off).S.stash.map view = caps.map (fun c => capView c.lines) := by
  unfold run fileText
  simp only
  rw [Srt.splitlines_terminated]
  · simp only [List.drop_succ_cons, List.drop_zero, List.foldl_cons, translateLine_empty]
    have h0 : Track ({ off := off * 1000000 } : Reader) [] := ⟨rfl, rfl, [], by simp, by simp, rfl, rfl⟩
    obtain ⟨_, a, qs, hql, hqg, hqc, hqv⟩ := file_track caps hok _ [] h0
    generalize (caps.flatMap FileCap.fileLines).foldl translateLine ({ off := off * 1000000 } : Reader) = rf at a hqc hqv
    simp only [List.nil_append, List.map_map] at hqv
    rw [a]
    unfold flush
    simp only
    obtain ⟨v, _⟩ := popS_view rf.S rf.queue 0 qs hql hqg hqc
    split
    · rename_i he
      have : rf.queue = [] := List.isEmpty_iff.mp he
      have hq0 : qs = [] := by
        rw [this] at hqc
        simpa using hqc.symm
      rw [hq0] at hqv
      simpa [Function.comp_def] using hqv
    · rw [popOn_S, v, hqv]
      simp [Function.comp_def]
  · intro l hl
    simp only [List.mem_cons, List.mem_flatMap] at hl
    rcases hl with rfl | rfl | ⟨c, hc, hl⟩
    · intro x hx
      have : ∀ y ∈ Generated.Scc.header.toList, isLineBreak y = false := by decide
      exact this x hx
    · intro x hx; simp at hx
    · exact fileLines_noBreak c (hok c hc).1 l hl

/-- **C17 (write, then read: the same captions).** for every caption set whose captions are 1–15 rows of basic characters, each
    row non-empty and without white space at its end — what `textwrap.fill` lays out — any start and end times, any reading
    offset: the reader model run on the file the writer model produces stores exactly one caption per caption, in order, whose
    nodes are its rows' texts separated by breaks and whose position is (row `16 − n`, column 0) -/
theorem written_file_restored (caps : List (List Str × Rat × Rat)) (hg : ∀ c ∈ caps, GoodLines c.1) (off : Rat) :
    (run (write caps) off).S.stash.map view = caps.map (fun c => capView c.1) := by
  obtain ⟨fcs, e, ok, hl⟩ := write_is_file caps (fun c hc => ⟨(hg c hc).2.1, fun l hlm x hx => ((hg c hc).2.2 l hlm).2 x hx⟩)
  have hgood : ∀ c ∈ fcs, c.ok ∧ GoodLines c.lines := by
    intro c hc
    refine ⟨ok c hc, ?_⟩
    have : c.lines ∈ fcs.map (·.lines) := List.mem_map.mpr ⟨c, hc, rfl⟩
    rw [hl] at this
    obtain ⟨k, hk, hke⟩ := List.mem_map.mp this
    rw [← hke]
    exact hg k hk
  rw [e, file_stored fcs hgood off]
  have : fcs.map (fun c => capView c.lines) = (fcs.map (·.lines)).map capView := by simp [List.map_map, Function.comp_def]
  rw [this, hl]
  simp [List.map_map, Function.comp_def]

end PcVerif.SccW
