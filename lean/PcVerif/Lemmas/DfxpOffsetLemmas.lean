/-
  DFXP offset times (C01): `<count><metric>` with a decimal count of any width and the metrics h, m, s, ms, f, and the
  three ways a cue gets its two instants (begin+end, begin+dur).
-/
import PcVerif.Model.DfxpTime
import PcVerif.Lemmas.StrLemmas
namespace PcVerif.Dfxp
open Str

/-- spelling of a metric -/
def Metric.text : Metric → Str
  | .h => ['h'] | .m => ['m'] | .s => ['s'] | .ms => ['m', 's'] | .f => ['f'] | .t => ['t']

theorem matchMetric_text (m : Metric) : matchMetric m.text = some m := by cases m <;> rfl

theorem metric_head_not_decimal (m : Metric) : ∀ c r, m.text = c :: r → isDecimal c = false := by
  intro c r h
  cases m <;> (simp [Metric.text] at h; obtain ⟨rfl, _⟩ := h; decide)

theorem matchClock_offset_none (ip rest : Str) (hip : Digits ip) (hr : ∀ c r, rest = c :: r → isDecimal c = false ∧ c ≠ ':') :
    matchClock (ip ++ rest) = none := by
  unfold matchClock
  rw [spanDecimals_append ip rest hip.allDecimal (fun c r e => (hr c r e).1)]
  have hne : ip.isEmpty = false := by cases ip <;> simp_all [Digits]
  simp only [hne, Bool.false_eq_true, if_false]
  cases rest with
  | nil => simp [dropChar]
  | cons c r => simp [dropChar, (hr c r rfl).2]

/-- the value of an offset time -/
def offsetValue (ip fp : Str) (m : Metric) : Rat :=
  match m with
  | .h => decimalValue ip fp * usH
  | .m => decimalValue ip fp * usM
  | .s => decimalValue ip fp * usS
  | .ms => decimalValue ip fp * usMs
  | .f => decimalValue ip fp / frameBase * usS
  | .t => 0

/-- **offset time, whole count**: `<digits><metric>` -/
theorem timeExpr_offset_int (ip : Str) (m : Metric) (hip : Digits ip) (hm : m ≠ .t) :
    timeExpr (ip ++ m.text) = .ok (offsetValue ip [] m).floor := by
  have hc : matchClock (ip ++ m.text) = none :=
    matchClock_offset_none ip m.text hip (by
      intro c r e
      cases m <;> (simp [Metric.text] at e; obtain ⟨rfl, _⟩ := e; exact ⟨by decide, by decide⟩))
  have hne : ip.isEmpty = false := by cases ip <;> simp_all [Digits]
  have ho : matchOffset (ip ++ m.text) = some (ip, [], m) := by
    unfold matchOffset
    rw [spanDecimals_append ip m.text hip.allDecimal (metric_head_not_decimal m)]
    simp only [hne, Bool.false_eq_true, if_false]
    cases m <;> simp [Metric.text, matchMetric]
  unfold timeExpr
  rw [hc, ho]
  simp only [digitsOk, List.all_cons, hip.2, allAsciiDigits, List.all_nil, Bool.and_self, Bool.not_true, Bool.false_eq_true, if_false]
  cases m <;> first | rfl | exact absurd rfl hm

/-- **offset time, decimal count**: `<digits>.<digits><metric>` -/
theorem timeExpr_offset_frac (ip fp : Str) (m : Metric) (hip : Digits ip) (hfp : Digits fp) (hm : m ≠ .t) :
    timeExpr (ip ++ '.' :: (fp ++ m.text)) = .ok (offsetValue ip fp m).floor := by
  have hc : matchClock (ip ++ '.' :: (fp ++ m.text)) = none :=
    matchClock_offset_none ip _ hip (by intro c r e; simp at e; obtain ⟨rfl, _⟩ := e; exact ⟨by decide, by decide⟩)
  have hne : ip.isEmpty = false := by cases ip <;> simp_all [Digits]
  have fne : fp.isEmpty = false := by cases fp <;> simp_all [Digits]
  have ho : matchOffset (ip ++ '.' :: (fp ++ m.text)) = some (ip, fp, m) := by
    unfold matchOffset
    rw [spanDecimals_append ip _ hip.allDecimal (by intro c r e; simp at e; obtain ⟨rfl, _⟩ := e; decide)]
    simp only [hne, Bool.false_eq_true, if_false]
    rw [spanDecimals_append fp m.text hfp.allDecimal (metric_head_not_decimal m)]
    simp only [fne, Bool.false_eq_true, if_false, matchMetric_text]
  unfold timeExpr
  rw [hc, ho]
  simp only [digitsOk, List.all_cons, hip.2, hfp.2, List.all_nil, Bool.and_self, Bool.not_true, Bool.false_eq_true, if_false]
  cases m <;> first | rfl | exact absurd rfl hm

/-- **begin and end** -/
theorem times_begin_end (b e : Str) (x y : Int) (hb : b ≠ []) (he : e ≠ []) (durA : Option Str)
    (pb : timeExpr b = .ok x) (pe : timeExpr e = .ok y) : times (some b) (some e) durA = .ok (x, y) := by
  have h1 : b.isEmpty = false := by cases b <;> simp_all
  have h2 : e.isEmpty = false := by cases e <;> simp_all
  simp [times, h1, h2, pb, pe, bind, Except.bind, pure, Except.pure]

/-- **begin and dur**: the cue ends `dur` after its begin -/
theorem times_begin_dur (b d : Str) (x y : Int) (hb : b ≠ []) (hd : d ≠ [])
    (pb : timeExpr b = .ok x) (pd : timeExpr d = .ok y) : times (some b) none (some d) = .ok (x, x + y) := by
  have h1 : b.isEmpty = false := by cases b <;> simp_all
  have h2 : d.isEmpty = false := by cases d <;> simp_all
  simp [times, h1, h2, pb, pd, bind, Except.bind, pure, Except.pure]

/-- an element without `begin`, or with neither `end` nor `dur`, is refused -/
theorem times_missing (endA durA : Option Str) : times none endA durA = .error .timingError := by
  simp [times]

end PcVerif.Dfxp
