/-
  Lemmas for "detection recognises pycaption's own output" (C20): where a marker can occur in a document made of
  lines, lower-casing of documents, the characters of written stamps.
-/
import PcVerif.Model.Detect
import PcVerif.Lemmas.StrLemmas
namespace PcVerif.Str

theorem isPrefix_nil (s : Str) : isPrefix [] s = true := by
  cases s <;> simp [isPrefix, dropPrefix?]

theorem isPrefix_cons_cons (p c : Char) (ps s : Str) :
    isPrefix (p :: ps) (c :: s) = (decide (c = p) && isPrefix ps s) := by
  by_cases h : c = p <;> simp [isPrefix, dropPrefix?, h]

theorem isPrefix_cons_nil (p : Char) (ps : Str) : isPrefix (p :: ps) [] = false := by
  simp [isPrefix, dropPrefix?]

/-- a needle without the separator `d` that is a prefix of `l ++ d :: rest` is a prefix of `l` -/
theorem isPrefix_line (d : Char) (rest : Str) : ∀ (m l : Str), d ∉ m → isPrefix m (l ++ d :: rest) = true → isPrefix m l = true := by
  intro m
  induction m with
  | nil => intro l _ _; exact isPrefix_nil l
  | cons p ps ih =>
    intro l hm h
    cases l with
    | nil =>
      simp only [List.nil_append, isPrefix_cons_cons, Bool.and_eq_true, decide_eq_true_eq] at h
      exact absurd h.1.symm (fun e => hm (by simp [e]))
    | cons c l =>
      simp only [List.cons_append, isPrefix_cons_cons, Bool.and_eq_true, decide_eq_true_eq] at h ⊢
      exact ⟨h.1, ih l (fun hx => hm (by simp [hx])) h.2⟩

theorem isPrefix_mem : ∀ (m l : Str), isPrefix m l = true → ∀ c ∈ m, c ∈ l := by
  intro m
  induction m with
  | nil => intro _ _ c hc; simp at hc
  | cons p ps ih =>
    intro l h c hc
    cases l with
    | nil => simp [isPrefix_cons_nil] at h
    | cons x l =>
      simp only [isPrefix_cons_cons, Bool.and_eq_true, decide_eq_true_eq] at h
      simp only [List.mem_cons] at hc ⊢
      rcases hc with rfl | hc
      · exact Or.inl h.1.symm
      · exact Or.inr (ih l h.2 c hc)

/-- a needle occurs in a string only if all its characters do -/
theorem contains_mem (m : Str) (hne : m ≠ []) : ∀ (l : Str), contains m l = true → ∀ c ∈ m, c ∈ l := by
  intro l
  induction l with
  | nil => intro h; cases m <;> simp_all [contains]
  | cons x l ih =>
    intro h c hc
    simp only [contains, Bool.or_eq_true] at h
    rcases h with h | h
    · exact isPrefix_mem m _ h c hc
    · exact List.mem_cons_of_mem _ (ih h c hc)

theorem not_contains_of_not_mem (m l : Str) (c : Char) (hc : c ∈ m) (hl : c ∉ l) : contains m l = false := by
  cases h : contains m l with
  | false => rfl
  | true => exact absurd (contains_mem m (by intro e; simp [e] at hc) l h c hc) hl

/-- an occurrence in `l ++ d :: rest` of a needle without the separator `d` lies in `l` or in `rest` -/
theorem contains_line (d : Char) (m rest : Str) (hm : d ∉ m) (hne : m ≠ []) :
    ∀ (l : Str), contains m (l ++ d :: rest) = true → contains m l = true ∨ contains m rest = true := by
  intro l
  induction l with
  | nil =>
    intro h
    simp only [List.nil_append, contains, Bool.or_eq_true] at h
    rcases h with h | h
    · have := isPrefix_line d rest m [] hm (by simpa using h)
      cases m with
      | nil => exact absurd rfl hne
      | cons p ps => simp [isPrefix_cons_nil] at this
    · exact Or.inr h
  | cons x l ih =>
    intro h
    simp only [List.cons_append, contains, Bool.or_eq_true] at h
    rcases h with h | h
    · have := isPrefix_line d rest m (x :: l) hm (by simpa using h)
      exact Or.inl (by simp [contains, this])
    · rcases ih h with h | h
      · exact Or.inl (by simp [contains, h])
      · exact Or.inr h

/-- **a marker without line feed occurs in a document of lines only inside one of its lines** -/
theorem contains_lines (m : Str) (hm : '\n' ∉ m) (hne : m ≠ []) :
    ∀ (ls : List Str), contains m (ls.flatMap (· ++ ['\n'])) = true → ∃ l ∈ ls, contains m l = true := by
  intro ls
  induction ls with
  | nil => intro h; cases m <;> simp_all [contains]
  | cons l ls ih =>
    intro h
    simp only [List.flatMap_cons, List.append_assoc, List.singleton_append] at h
    rcases contains_line '\n' m _ hm hne l h with h | h
    · exact ⟨l, by simp, h⟩
    · obtain ⟨x, hx, hc⟩ := ih h
      exact ⟨x, by simp [hx], hc⟩

/-- the same for `sep.join(parts)` with a one-character separator -/
theorem contains_join (d : Char) (m : Str) (hm : d ∉ m) (hne : m ≠ []) :
    ∀ (ts : List Str), contains m (join [d] ts) = true → ∃ t ∈ ts, contains m t = true := by
  intro ts
  induction ts with
  | nil => intro h; cases m <;> simp_all [contains, join]
  | cons t ts ih =>
    intro h
    cases ts with
    | nil => exact ⟨t, by simp, by simpa [join] using h⟩
    | cons u us =>
      have e : join [d] (t :: u :: us) = t ++ d :: join [d] (u :: us) := by simp [join]
      rw [e] at h
      rcases contains_line d m _ hm hne t h with h | h
      · exact ⟨t, by simp, h⟩
      · obtain ⟨x, hx, hc⟩ := ih h
        exact ⟨x, List.mem_cons_of_mem _ hx, hc⟩

/-- an occurrence cannot start inside a prefix that lacks the needle's first character -/
theorem contains_skip_prefix (p : Char) (ps : Str) : ∀ (pre s : Str), p ∉ pre →
    contains (p :: ps) (pre ++ s) = true → contains (p :: ps) s = true := by
  intro pre
  induction pre with
  | nil => intro s _ h; simpa using h
  | cons c pre ih =>
    intro s hp h
    simp only [List.cons_append, contains, isPrefix_cons_cons, Bool.or_eq_true, Bool.and_eq_true, decide_eq_true_eq] at h
    rcases h with h | h
    · exact absurd (by simp [h.1]) hp
    · exact ih s (fun hx => hp (by simp [hx])) h

theorem contains_of_isPrefix_tail (m pre : Str) : ∀ (s : Str), contains m s = true → contains m (pre ++ s) = true := by
  induction pre with
  | nil => intro s h; simpa using h
  | cons c pre ih => intro s h; simp [contains, ih s h]

theorem contains_append_right (m : Str) : ∀ (s post : Str), contains m s = true → contains m (s ++ post) = true := by
  intro s
  induction s with
  | nil => intro post h; cases m with
    | nil => cases post <;> simp [contains, isPrefix_nil]
    | cons p ps => simp [contains] at h
  | cons c s ih =>
    intro post h
    simp only [contains, Bool.or_eq_true] at h
    simp only [List.cons_append, contains, Bool.or_eq_true]
    rcases h with h | h
    · left
      have : ∀ (m l : Str), isPrefix m l = true → isPrefix m (l ++ post) = true := by
        intro m; induction m with
        | nil => intro l _; exact isPrefix_nil _
        | cons p ps ihm =>
          intro l hl
          cases l with
          | nil => simp [isPrefix_cons_nil] at hl
          | cons y l =>
            simp only [List.cons_append, isPrefix_cons_cons, Bool.and_eq_true, decide_eq_true_eq] at hl ⊢
            exact ⟨hl.1, ihm l hl.2⟩
      exact this m (c :: s) h
    · exact Or.inr (ih post h)

/-! ### lower-casing -/

theorem lower_append (a b : Str) : lower (a ++ b) = lower a ++ lower b := by
  induction a with
  | nil => rfl
  | cons c a ih =>
    simp only [List.cons_append, lower]
    split <;> simp [ih]

/-- characters that `str.lower` leaves alone: ASCII other than capital letters -/
def Caseless (c : Char) : Prop := c.toNat < 65 ∨ (91 ≤ c.toNat ∧ c.toNat < 128)

theorem lower_caseless_char (c : Char) (h : Caseless c) : lower [c] = [c] := by
  have hn : ∀ e ∈ Generated.lowerToAscii, ¬ (e.1 = c.toNat) := by
    intro e he
    have : 128 ≤ e.1 := by
      revert e; decide
    unfold Caseless at h; omega
  have hf : Generated.lowerToAscii.find? (fun e => e.1 = c.toNat) = none := by
    rw [List.find?_eq_none]; intro e he; simpa using hn e he
  have hl : lowerAsciiChar c = c := by
    unfold lowerAsciiChar
    have : ¬ (('A' ≤ c && c ≤ 'Z') = true) := by
      intro hh
      have h2 : 'A' ≤ c ∧ c ≤ 'Z' := by simpa using hh
      have a1 : 65 ≤ c.toNat := h2.1
      have a2 : c.toNat ≤ 90 := h2.2
      unfold Caseless at h; omega
    simp [this]
  simp [lower, hf, hl]

theorem lower_caseless (s : Str) (h : ∀ c ∈ s, Caseless c) : lower s = s := by
  induction s with
  | nil => rfl
  | cons c s ih =>
    have : c :: s = [c] ++ s := rfl
    rw [this, lower_append, lower_caseless_char c (h c (by simp)), ih (fun x hx => h x (by simp [hx]))]

theorem lower_join (d : Char) (hd : lower [d] = [d]) : ∀ (ts : List Str), lower (join [d] ts) = join [d] (ts.map lower)
  | [] => rfl
  | [t] => by simp [join]
  | t :: u :: us => by
    have ih := lower_join d hd (u :: us)
    have e : join [d] (t :: u :: us) = t ++ ([d] ++ join [d] (u :: us)) := by simp [join]
    rw [e, lower_append, lower_append, hd, ih]
    simp [join]

/-- lower-casing creates no `<` -/
theorem lt_of_mem_lower : ∀ (s : Str), '<' ∈ lower s → '<' ∈ s := by
  intro s
  induction s with
  | nil => intro h; simp [lower] at h
  | cons c s ih =>
    intro h
    unfold lower at h
    split at h
    · rename_i e he
      have hm := List.mem_of_find?_eq_some he
      rcases List.mem_append.mp h with h1 | h1
      · exfalso
        have key : ∀ e ∈ Generated.lowerToAscii, ('<' : Char) ∉ e.2.map Char.ofNat := by decide
        exact key e hm h1
      · exact List.mem_cons_of_mem _ (ih h1)
    · rcases List.mem_cons.mp h with h1 | h1
      · have : c = '<' := by
          unfold lowerAsciiChar at h1
          split at h1
          · rename_i hu
            have h2 : 'A' ≤ c ∧ c ≤ 'Z' := by simpa using hu
            have a1 : 65 ≤ c.toNat := h2.1
            have a2 : c.toNat ≤ 90 := h2.2
            have key : ∀ k : Fin 26, Char.ofNat (97 + k.val) ≠ '<' := by decide
            have e : c.toNat + 32 = 97 + (c.toNat - 65) := by omega
            rw [e] at h1
            exact absurd h1.symm (key ⟨c.toNat - 65, by omega⟩)
          · exact h1.symm
        simp [this]
      · exact List.mem_cons_of_mem _ (ih h1)

theorem lower_lines (ls : List Str) : lower (ls.flatMap (· ++ ['\n'])) = (ls.map lower).flatMap (· ++ ['\n']) := by
  induction ls with
  | nil => rfl
  | cons l ls ih =>
    have hnl : lower ['\n'] = ['\n'] := lower_caseless_char '\n' (by unfold Caseless; decide)
    simp only [List.flatMap_cons, List.map_cons, lower_append, ih, hnl]

end PcVerif.Str
