/-
  SAMI writer, several languages (C14): the SYNC blocks stay in non-decreasing time order whatever the cues of the
  secondary languages are, and every paragraph sits in the block of its own start time.
-/
import PcVerif.Model.SamiWriter
namespace PcVerif.SamiW

def Sorted (b : Body) : Prop := (b.map (·.start)).Pairwise (· ≤ ·)

/-! ### the scan for the last earlier block -/

theorem lastEarlierAux_spec (time : Nat) : ∀ (body : Body) (i : Nat) (acc : Option Nat) (k : Nat),
    lastEarlierAux time body i acc = some k →
      (acc = some k ∧ ∀ s ∈ body, ¬ s.start < time) ∨
      (∃ j, k = i + j ∧ (∃ s, body[j]? = some s ∧ s.start < time) ∧ ∀ j', j < j' → ∀ y, body[j']? = some y → ¬ y.start < time) := by
  intro body
  induction body with
  | nil => intro i acc k h; exact Or.inl ⟨h, by simp⟩
  | cons x xs ih =>
    intro i acc k h
    simp only [lastEarlierAux] at h
    rcases ih (i + 1) _ k h with ⟨hacc, hno⟩ | ⟨j, hk, hs, hafter⟩
    · by_cases hx : x.start < time
      · rw [if_pos hx] at hacc
        have : k = i := by simpa using hacc.symm
        refine Or.inr ⟨0, by omega, ⟨x, by simp, hx⟩, ?_⟩
        intro j' hj' y hy
        cases j' with
        | zero => omega
        | succ j'' =>
          simp only [List.getElem?_cons_succ] at hy
          exact hno y (List.mem_of_getElem? hy)
      · rw [if_neg hx] at hacc
        exact Or.inl ⟨hacc, by intro s hs; rcases List.mem_cons.mp hs with rfl | hs; exact hx; exact hno s hs⟩
    · refine Or.inr ⟨j + 1, by omega, by simpa using hs, ?_⟩
      intro j' hj' y hy
      cases j' with
      | zero => omega
      | succ j'' =>
        simp only [List.getElem?_cons_succ] at hy
        exact hafter j'' (by omega) y hy

theorem lastEarlier_spec (body : Body) (time k : Nat) (h : lastEarlier body time = some k) :
    (∃ s, body[k]? = some s ∧ s.start < time) ∧ ∀ j', k < j' → ∀ y, body[j']? = some y → ¬ y.start < time := by
  unfold lastEarlier at h
  rcases lastEarlierAux_spec time body 0 none k h with ⟨hacc, _⟩ | ⟨j, hk, hs, hafter⟩
  · cases hacc
  · have : k = j := by omega
    subst this
    exact ⟨hs, hafter⟩

theorem lastEarlier_none (body : Body) (time : Nat) (h : lastEarlier body time = none) : ∀ s ∈ body, ¬ s.start < time := by
  unfold lastEarlier at h
  have key : ∀ (body : Body) (i : Nat) (acc : Option Nat), lastEarlierAux time body i acc = none →
      acc = none ∧ ∀ s ∈ body, ¬ s.start < time := by
    intro body
    induction body with
    | nil => intro i acc h; exact ⟨h, by simp⟩
    | cons x xs ih =>
      intro i acc h
      simp only [lastEarlierAux] at h
      obtain ⟨hacc, hno⟩ := ih (i + 1) _ h
      by_cases hx : x.start < time
      · rw [if_pos hx] at hacc; cases hacc
      · rw [if_neg hx] at hacc
        exact ⟨hacc, by intro s hs; rcases List.mem_cons.mp hs with rfl | hs; exact hx; exact hno s hs⟩
  exact (key body 0 none h).2

/-! ### insertion keeps the order -/

theorem sorted_insertAt (body : Body) (k : Nat) (s : Sync) (hs : Sorted body)
    (hb : ∀ x ∈ body.take k, x.start ≤ s.start) (ha : ∀ y ∈ body.drop k, s.start ≤ y.start) : Sorted (insertAt body k s) := by
  unfold Sorted insertAt at *
  rw [List.map_append, List.map_cons, List.pairwise_append]
  have hsplit : body.map (·.start) = (body.take k).map (·.start) ++ (body.drop k).map (·.start) := by
    rw [← List.map_append, List.take_append_drop]
  rw [hsplit, List.pairwise_append] at hs
  obtain ⟨h1, h2, h3⟩ := hs
  refine ⟨h1, ?_, ?_⟩
  · rw [List.pairwise_cons]
    refine ⟨?_, h2⟩
    intro a ha'
    obtain ⟨y, hy, rfl⟩ := List.mem_map.mp ha'
    exact ha y hy
  · intro a ha' b hb'
    obtain ⟨x, hx, rfl⟩ := List.mem_map.mp ha'
    rcases List.mem_cons.mp hb' with rfl | hb'
    · exact hb x hx
    · exact h3 _ ha' _ hb'

theorem sorted_getElem_le (body : Body) (hs : Sorted body) (i j : Nat) (x y : Sync) (hij : i ≤ j)
    (hx : body[i]? = some x) (hy : body[j]? = some y) : x.start ≤ y.start := by
  rcases Nat.lt_or_eq_of_le hij with hlt | rfl
  · unfold Sorted at hs
    rw [List.pairwise_iff_getElem] at hs
    have hi : i < body.length := by
      rcases List.getElem?_eq_some_iff.mp hx with ⟨h, _⟩; exact h
    have hj : j < body.length := by
      rcases List.getElem?_eq_some_iff.mp hy with ⟨h, _⟩; exact h
    have := hs i j (by simpa using hi) (by simpa using hj) hlt
    have ex : body[i] = x := by
      rcases List.getElem?_eq_some_iff.mp hx with ⟨_, h⟩; exact h
    have ey : body[j] = y := by
      rcases List.getElem?_eq_some_iff.mp hy with ⟨_, h⟩; exact h
    simpa [ex, ey] using this
  · rw [hx] at hy; cases hy; exact Nat.le_refl _

/-- **a block looked up or created for a secondary language leaves the blocks in time order** -/
theorem recreateSync_sorted (body : Body) (time : Nat) (hs : Sorted body) : Sorted (recreateSync body false time).1 := by
  unfold recreateSync
  simp only [Bool.false_eq_true, if_false]
  cases hf : findIdx body time with
  | some i => exact hs
  | none =>
    simp only
    cases hl : lastEarlier body time with
    | some i =>
      simp only
      obtain ⟨⟨s, hsi, hlt⟩, hafter⟩ := lastEarlier_spec body time i hl
      apply sorted_insertAt body (i + 1) ⟨time, []⟩ hs
      · intro x hx
        obtain ⟨j, hj, hxj⟩ := List.mem_take_iff_getElem.mp hx
        have hxj' : body[j]? = some x := by
          rw [List.getElem?_eq_some_iff]; exact ⟨by omega, hxj⟩
        have := sorted_getElem_le body hs j i x s (by omega) hxj' hsi
        show x.start ≤ time
        omega
      · intro y hy
        obtain ⟨j, hj, hyj⟩ := List.mem_drop_iff_getElem.mp hy
        have hyj' : body[i + 1 + j]? = some y := by
          rw [List.getElem?_eq_some_iff]; exact ⟨by omega, hyj⟩
        have := hafter (i + 1 + j) (by omega) y hyj'
        show time ≤ y.start
        omega
    | none =>
      simp only
      have hno := lastEarlier_none body time hl
      cases hfl : firstLater body time with
      | some j =>
        simp only
        apply sorted_insertAt body j ⟨time, []⟩ hs
        · intro x hx
          -- before the first later block there are only blocks that are neither earlier nor later: none, since no block
          -- has this start (`findIdx` found nothing); stated through `≤`
          have hxm : x ∈ body := List.mem_of_mem_take hx
          obtain ⟨k, hk, hxk⟩ := List.mem_take_iff_getElem.mp hx
          unfold firstLater at hfl
          have := List.findIdx?_eq_some_iff_getElem.mp hfl
          obtain ⟨_, _, hbefore⟩ := this
          have := hbefore k (by omega)
          simp only [decide_eq_true_eq] at this
          subst hxk
          show body[k].start ≤ time
          omega
        · intro y hy
          have hym : y ∈ body := List.mem_of_mem_drop hy
          have := hno y hym
          show time ≤ y.start
          omega
      | none =>
        simp only
        unfold Sorted at *
        rw [List.map_append, List.pairwise_append]
        refine ⟨hs, by simp, ?_⟩
        intro a ha b hb
        obtain ⟨x, hx, rfl⟩ := List.mem_map.mp ha
        simp only [List.map_cons, List.map_nil, List.mem_singleton] at hb
        rw [hb]
        -- no block is later than `time`
        unfold firstLater at hfl
        have := List.findIdx?_eq_none_iff.mp hfl x hx
        have h' : ¬ time < x.start := by simpa using this
        show x.start ≤ time
        omega

theorem sorted_appendP (body : Body) (i : Option Nat) (p : PEntry) (hs : Sorted body) : Sorted (appendP body i p) := by
  cases i with
  | none => exact hs
  | some i =>
    unfold appendP Sorted at *
    have : (body.modify i fun s => { s with ps := s.ps ++ [p] }).map (·.start) = body.map (·.start) := by
      apply List.ext_getElem?
      intro n
      simp only [List.getElem?_map, List.getElem?_modify]
      cases body[n]? with
      | none => rfl
      | some s => by_cases h : i = n <;> simp [h]
    rw [this]; exact hs

theorem recreateP_sorted (body : Body) (lt : Option Nat) (lang cap : Nat) (a b : Rat) (hs : Sorted body) :
    Sorted (recreateP body lt lang false cap a b).1 := by
  unfold recreateP
  simp only
  apply sorted_appendP
  apply recreateSync_sorted
  cases lt with
  | none => exact hs
  | some e =>
    simp only
    split
    · exact sorted_appendP _ _ _ (recreateSync_sorted body e hs)
    · exact hs

theorem langLoop_sorted (lang : Nat) : ∀ (caps : List (Rat × Rat)) (body : Body) (lt : Option Nat) (k : Nat), Sorted body →
    Sorted (langLoop lang false body lt k caps) := by
  intro caps
  induction caps with
  | nil => intro body lt k hs; exact hs
  | cons c cs ih =>
    intro body lt k hs
    obtain ⟨a, b⟩ := c
    simp only [langLoop]
    exact ih _ _ _ (recreateP_sorted body lt lang k a b hs)

theorem writeLoop_sorted : ∀ (rest : List (List (Rat × Rat))) (body : Body) (li : Nat), li ≠ 0 → Sorted body →
    Sorted (writeLoop body li rest) := by
  intro rest
  induction rest with
  | nil => intro body li _ hs; exact hs
  | cons caps rest ih =>
    intro body li hli hs
    simp only [writeLoop]
    have : decide (li = 0) = false := by simp [hli]
    rw [this]
    exact ih _ (li + 1) (by omega) (langLoop_sorted li caps body none 0 hs)

/-! ### every paragraph sits in the block of its own start time -/

/-- start millisecond of the cue a paragraph entry stands for -/
def startMs (langs : List (List (Rat × Rat))) (p : PEntry) : Option Nat :=
  (langs[p.lang]?).bind fun caps => caps[p.cap]?.map fun c => ms c.1

/-- every non-blank paragraph is in a block whose start is the start millisecond of its cue -/
def InOwn (langs : List (List (Rat × Rat))) (body : Body) : Prop :=
  ∀ s ∈ body, ∀ p ∈ s.ps, p.blank = false → startMs langs p = some s.start

theorem mem_insertAt (body : Body) (k : Nat) (s x : Sync) (h : x ∈ insertAt body k s) : x = s ∨ x ∈ body := by
  unfold insertAt at h
  rcases List.mem_append.mp h with h | h
  · exact Or.inr (List.mem_of_mem_take h)
  · rcases List.mem_cons.mp h with h | h
    · exact Or.inl h
    · exact Or.inr (List.mem_of_mem_drop h)

theorem insertAt_get (body : Body) (k : Nat) (s : Sync) (hk : k ≤ body.length) : (insertAt body k s)[k]? = some s := by
  unfold insertAt
  rw [List.getElem?_append_right (by simp; omega)]
  simp [Nat.min_eq_left hk]

/-- the block handed back by `_recreate_sync` starts at the requested time; blocks are only added, and added empty -/
theorem recreateSync_spec (body : Body) (prim : Bool) (time : Nat) :
    ∃ i s, (recreateSync body prim time).2 = some i ∧ (recreateSync body prim time).1[i]? = some s ∧ s.start = time ∧
      ∀ x ∈ (recreateSync body prim time).1, x = ⟨time, []⟩ ∨ x ∈ body := by
  unfold recreateSync
  cases prim with
  | true =>
    simp only [if_true]
    exact ⟨body.length, ⟨time, []⟩, rfl, by simp, rfl, by
      intro x hx; rcases List.mem_append.mp hx with h | h
      · exact Or.inr h
      · exact Or.inl (by simpa using h)⟩
  | false =>
    simp only [Bool.false_eq_true, if_false]
    cases hf : findIdx body time with
    | some i =>
      simp only
      unfold findIdx at hf
      obtain ⟨hlt, hp, _⟩ := List.findIdx?_eq_some_iff_getElem.mp hf
      exact ⟨i, body[i], rfl, by simp [hlt], by simpa using hp, fun x hx => Or.inr hx⟩
    | none =>
      simp only
      cases hl : lastEarlier body time with
      | some i =>
        simp only
        obtain ⟨⟨s, hsi, _⟩, _⟩ := lastEarlier_spec body time i hl
        have hi : i < body.length := (List.getElem?_eq_some_iff.mp hsi).1
        exact ⟨i + 1, ⟨time, []⟩, rfl, insertAt_get body (i + 1) _ (by omega), rfl, fun x hx => mem_insertAt _ _ _ x hx⟩
      | none =>
        simp only
        cases hfl : firstLater body time with
        | some j =>
          simp only
          unfold firstLater at hfl
          obtain ⟨hlt, _, _⟩ := List.findIdx?_eq_some_iff_getElem.mp hfl
          exact ⟨j, ⟨time, []⟩, rfl, insertAt_get body j _ (by omega), rfl, fun x hx => mem_insertAt _ _ _ x hx⟩
        | none =>
          simp only
          exact ⟨body.length, ⟨time, []⟩, rfl, by simp, rfl, by
            intro x hx; rcases List.mem_append.mp hx with h | h
            · exact Or.inr h
            · exact Or.inl (by simpa using h)⟩

theorem inOwn_recreateSync (langs) (body : Body) (prim : Bool) (time : Nat) (h : InOwn langs body) :
    InOwn langs (recreateSync body prim time).1 := by
  obtain ⟨_, _, _, _, _, hmem⟩ := recreateSync_spec body prim time
  intro s hs p hp hb
  rcases hmem s hs with rfl | hs'
  · simp at hp
  · exact h s hs' p hp hb

theorem inOwn_appendP (langs) (body : Body) (i : Nat) (s : Sync) (p : PEntry) (h : InOwn langs body)
    (hi : body[i]? = some s) (hp : p.blank = false → startMs langs p = some s.start) :
    InOwn langs (appendP body (some i) p) := by
  intro x hx q hq hb
  unfold appendP at hx
  simp only at hx
  obtain ⟨n, hn, hxn⟩ := List.mem_iff_getElem.mp hx
  have hxn' : (body.modify i fun s => { s with ps := s.ps ++ [p] })[n]? = some x := by
    rw [List.getElem?_eq_some_iff]; exact ⟨hn, hxn⟩
  rw [List.getElem?_modify] at hxn'
  cases hb' : body[n]? with
  | none => rw [hb'] at hxn'; simp at hxn'
  | some y =>
    rw [hb'] at hxn'
    have hy : y ∈ body := List.mem_of_getElem? hb'
    by_cases hin : i = n
    · subst hin
      rw [hi] at hb'; cases hb'
      simp only [if_true] at hxn'
      have hxn' : x = { s with ps := s.ps ++ [p] } := by simpa using hxn'.symm
      subst hxn'
      simp only [List.mem_append, List.mem_singleton] at hq
      rcases hq with hq | rfl
      · exact h s hy q hq hb
      · exact hp hb
    · simp only [hin, if_false] at hxn'
      have hxn' : x = y := by simpa using hxn'.symm
      rw [hxn'] at hq ⊢
      exact h y hy q hq hb

theorem inOwn_recreateP (langs) (body : Body) (lt : Option Nat) (lang : Nat) (prim : Bool) (cap : Nat) (a b : Rat)
    (h : InOwn langs body) (hc : startMs langs ⟨lang, false, cap⟩ = some (ms a)) :
    InOwn langs (recreateP body lt lang prim cap a b).1 := by
  unfold recreateP
  simp only
  have step : ∀ (bd : Body), InOwn langs bd → InOwn langs
      (appendP (recreateSync bd prim (ms a)).1 (recreateSync bd prim (ms a)).2 ⟨lang, false, cap⟩) := by
    intro bd hbd
    obtain ⟨i, s, hi, hsi, hst, _⟩ := recreateSync_spec bd prim (ms a)
    rw [hi]
    exact inOwn_appendP langs _ i s _ (inOwn_recreateSync langs bd prim (ms a) hbd) hsi (by intro _; rw [hst]; exact hc)
  apply step
  cases lt with
  | none => exact h
  | some e =>
    simp only
    split
    · obtain ⟨i, s, hi, hsi, _, _⟩ := recreateSync_spec body prim e
      rw [hi]
      exact inOwn_appendP langs _ i s _ (inOwn_recreateSync langs body prim e h) hsi (by intro hb; cases hb)
    · exact h

theorem inOwn_langLoop (langs) (lang : Nat) (prim : Bool) (all : List (Rat × Rat)) (hl : langs[lang]? = some all) :
    ∀ (caps : List (Rat × Rat)) (body : Body) (lt : Option Nat) (k : Nat), caps = all.drop k → InOwn langs body →
      InOwn langs (langLoop lang prim body lt k caps) := by
  intro caps
  induction caps with
  | nil => intro body lt k _ h; exact h
  | cons c cs ih =>
    intro body lt k hk h
    obtain ⟨a, b⟩ := c
    simp only [langLoop]
    have hget : all[k]? = some (a, b) := by
      have := congrArg (fun l => l[0]?) hk
      simpa using this.symm
    have hcs : cs = all.drop (k + 1) := by
      have := congrArg List.tail hk
      simpa [List.drop_drop] using this
    apply ih _ _ (k + 1) hcs
    apply inOwn_recreateP langs body lt lang prim k a b h
    simp [startMs, hl, hget]

theorem inOwn_writeLoop (langs : List (List (Rat × Rat))) : ∀ (rest : List (List (Rat × Rat))) (body : Body) (li : Nat),
    rest = langs.drop li → InOwn langs body → InOwn langs (writeLoop body li rest) := by
  intro rest
  induction rest with
  | nil => intro body li _ h; exact h
  | cons caps rest ih =>
    intro body li hr h
    simp only [writeLoop]
    have hget : langs[li]? = some caps := by
      have := congrArg (fun l => l[0]?) hr
      simpa using this.symm
    have hrest : rest = langs.drop (li + 1) := by
      have := congrArg List.tail hr
      simpa [List.drop_drop] using this
    exact ih _ (li + 1) hrest (inOwn_langLoop langs li _ caps hget caps body none 0 (by simp) h)

/-- **C14 (paragraphs in the block of their start time).** in the SAMI document written for ANY caption set — any number
    of languages, any cues — every paragraph that carries a cue's text is in a SYNC block whose start is that cue's start
    millisecond -/
theorem paragraphs_in_own_block (langs : List (List (Rat × Rat))) : InOwn langs (plan langs) := by
  unfold plan
  exact inOwn_writeLoop langs langs [] 0 (by simp) (by intro s hs; simp at hs)

end PcVerif.SamiW
