/-
  Document level of the WebVTT reader (C01): for a document made of a header and well-formed cue blocks separated by
  empty lines, `WebVTTReader.read` returns exactly one cue per block, in order, with the instants of its timing line.
-/
import PcVerif.Model.Vtt
import PcVerif.Lemmas.StrLemmas
namespace PcVerif.Vtt
open Str

abbrev arrow : Str := "-->".toList

/-- one cue block as written: optional identifier lines, the timing line, text lines, extra empty lines after it -/
structure VBlock where
  ids : List Str
  timing : Str
  texts : List Str
  gap : Nat

/-- nodes of the text lines: decoded lines separated by breaks -/
def vnodes : List Str → List Node
  | [] => []
  | t :: ts => Node.text (decode t) :: ts.flatMap fun x => [Node.brk, Node.text (decode x)]

def VBlock.cue (B : VBlock) (st en : Int) (set : Option Str) : RCue := ⟨st, en, vnodes B.texts, set⟩

structure VBlock.WF (o : Opts) (B : VBlock) (st en : Int) (set : Option Str) : Prop where
  idsPlain : ∀ l ∈ B.ids, l ≠ [] ∧ Str.contains arrow l = false
  timingArrow : Str.contains arrow B.timing = true
  timingParses : ∀ last : Int, parseTimingLine o B.timing last = .ok (st, en, set)
  textsNe : B.texts ≠ []
  textsPlain : ∀ t ∈ B.texts, t ≠ [] ∧ Str.contains arrow t = false

theorem vnodes_ne_nil {ts : List Str} (h : ts ≠ []) : vnodes ts ≠ [] := by
  cases ts with
  | nil => exact absurd rfl h
  | cons t ts => simp [vnodes]

/-- lines that are ignored while no cue is open -/
theorem parseLines_skip (o : Opts) (st : PState) (ls rest : List Str) (hf : st.found = false)
    (h : ∀ l ∈ ls, Str.contains arrow l = false) : parseLines o st (ls ++ rest) = parseLines o st rest := by
  induction ls with
  | nil => rfl
  | cons l ls ih =>
    have hl : Str.contains "-->".toList l = false := h l (by simp)
    have : parseStep o st l = .ok st := by
      unfold parseStep
      simp only [hl, Bool.false_eq_true, if_false, hf]
      split <;> rfl
    simp only [List.cons_append, parseLines, this]
    exact ih (fun x hx => h x (by simp [hx]))

/-- the text lines of an open cue -/
theorem parseLines_texts (o : Opts) (ts rest : List Str) (h : ∀ t ∈ ts, t ≠ [] ∧ Str.contains arrow t = false) :
    ∀ (st : PState), st.found = true →
    parseLines o st (ts ++ rest) =
      parseLines o { st with nodes := st.nodes ++ (if st.nodes.isEmpty then vnodes ts else ts.flatMap fun x => [Node.brk, Node.text (decode x)]) } rest := by
  induction ts with
  | nil => intro st _; simp [vnodes]
  | cons t ts ih =>
    intro st hf
    obtain ⟨hne, hna⟩ := h t (by simp)
    have hne' : t.isEmpty = false := by cases t <;> simp_all
    have hna' : Str.contains "-->".toList t = false := hna
    have hstep : parseStep o st t = .ok { st with nodes := (if st.nodes.isEmpty then st.nodes else st.nodes ++ [Node.brk]) ++ [Node.text (decode t)] } := by
      unfold parseStep
      simp only [hna', Bool.false_eq_true, if_false, hne', hf, if_true]
    simp only [List.cons_append, parseLines, hstep]
    rw [ih (fun x hx => h x (by simp [hx]))
      { st with nodes := (if st.nodes.isEmpty then st.nodes else st.nodes ++ [Node.brk]) ++ [Node.text (decode t)] } hf]
    congr 1
    cases hn : st.nodes with
    | nil => simp [vnodes]
    | cons a as => simp

def vdocLines : List VBlock → List Str
  | [] => []
  | [B] => B.ids ++ B.timing :: (B.texts ++ List.replicate B.gap [])
  | B :: B' :: Bs => B.ids ++ B.timing :: (B.texts ++ (List.replicate (B.gap + 1) [] ++ vdocLines (B' :: Bs)))

/-- what `read` returns from a final state -/
def finalCaps (st : PState) : List RCue :=
  if st.nodes.isEmpty then st.caps else st.caps ++ [⟨st.start, st.stop, st.nodes, st.settings⟩]

theorem contains_arrow_nil : Str.contains arrow [] = false := by decide

/-- state after a block whose cue has been stored -/
def stored (st : PState) (B : VBlock) (a b : Int) (set : Option Str) : PState :=
  { caps := st.caps ++ [B.cue a b set], start := a, stop := b, haveTimes := true, nodes := [], settings := set, found := false }

/-- from the start of a block to the end of its text lines -/
theorem block_open (o : Opts) (B : VBlock) (a b : Int) (set : Option Str) (hw : B.WF o a b set) (rest : List Str)
    (st : PState) (hf : st.found = false) (hn : st.nodes = []) :
    parseLines o st (B.ids ++ B.timing :: (B.texts ++ rest)) =
      parseLines o { st with found := true, start := a, stop := b, haveTimes := true, settings := set, nodes := vnodes B.texts } rest := by
  rw [parseLines_skip o st B.ids _ hf (fun l hl => (hw.idsPlain l hl).2)]
  have hstep : parseStep o st B.timing = .ok { st with found := true, start := a, stop := b, haveTimes := true, settings := set } := by
    unfold parseStep
    have := hw.timingArrow
    simp only [arrow] at this
    simp only [this, if_true, hw.timingParses]
  simp only [parseLines, hstep]
  rw [parseLines_texts o B.texts rest hw.textsPlain _ rfl]
  simp [hn]

theorem block_nonfinal (o : Opts) (B : VBlock) (a b : Int) (set : Option Str) (hw : B.WF o a b set) (rest : List Str)
    (st : PState) (hf : st.found = false) (hn : st.nodes = []) :
    parseLines o st (B.ids ++ B.timing :: (B.texts ++ (List.replicate (B.gap + 1) [] ++ rest))) =
      parseLines o (stored st B a b set) rest := by
  rw [block_open o B a b set hw _ st hf hn, List.replicate_succ, List.cons_append]
  have hne : (vnodes B.texts).isEmpty = false := by
    cases h : vnodes B.texts with
    | nil => exact absurd h (vnodes_ne_nil hw.textsNe)
    | cons _ _ => rfl
  have hstep : parseStep o { st with found := true, start := a, stop := b, haveTimes := true, settings := set, nodes := vnodes B.texts } []
      = .ok (stored st B a b set) := by
    unfold parseStep
    have h1 : Str.contains "-->".toList ([] : Str) = false := contains_arrow_nil
    rw [h1]
    simp only [Bool.false_eq_true, if_false, List.isEmpty_nil, if_true, hne, Bool.not_false]
    rfl
  simp only [parseLines, hstep]
  exact parseLines_skip o _ _ rest rfl (fun l hl => by rw [(List.mem_replicate.mp hl).2]; exact contains_arrow_nil)

theorem block_final (o : Opts) (B : VBlock) (a b : Int) (set : Option Str) (hw : B.WF o a b set)
    (st : PState) (hf : st.found = false) (hn : st.nodes = []) :
    ∃ stf, parseLines o st (B.ids ++ B.timing :: (B.texts ++ List.replicate B.gap [])) = .ok stf ∧
      finalCaps stf = st.caps ++ [B.cue a b set] := by
  cases hg : B.gap with
  | zero =>
    refine ⟨{ st with found := true, start := a, stop := b, haveTimes := true, settings := set, nodes := vnodes B.texts }, ?_, ?_⟩
    · have := block_open o B a b set hw [] st hf hn
      simp only [List.replicate_zero]
      rw [this]; rfl
    · have hne : (vnodes B.texts).isEmpty = false := by
        cases h : vnodes B.texts with
        | nil => exact absurd h (vnodes_ne_nil hw.textsNe)
        | cons _ _ => rfl
      simp [finalCaps, hne, VBlock.cue]
  | succ g =>
    refine ⟨stored st B a b set, ?_, ?_⟩
    · have := block_nonfinal o { B with gap := g } a b set ⟨hw.idsPlain, hw.timingArrow, hw.timingParses, hw.textsNe, hw.textsPlain⟩ [] st hf hn
      simp only [List.append_nil] at this
      rw [this]; rfl
    · simp [finalCaps, stored]

abbrev VT := VBlock × Int × Int × Option Str

def vcues (bs : List VT) : List RCue := bs.map fun b => b.1.cue b.2.1 b.2.2.1 b.2.2.2

theorem parseLines_doc (o : Opts) (bs : List VT) : (∀ b ∈ bs, b.1.WF o b.2.1 b.2.2.1 b.2.2.2) →
    ∀ (st : PState), st.found = false → st.nodes = [] →
    ∃ stf, parseLines o st (vdocLines (bs.map (·.1))) = .ok stf ∧ finalCaps stf = st.caps ++ vcues bs := by
  induction bs with
  | nil => intro _ st _ hn; exact ⟨st, rfl, by simp [finalCaps, hn, vcues]⟩
  | cons b rest ih =>
    intro hwf st hf hn
    have hw := hwf b (by simp)
    cases rest with
    | nil =>
      obtain ⟨stf, h1, h2⟩ := block_final o b.1 b.2.1 b.2.2.1 b.2.2.2 hw st hf hn
      exact ⟨stf, h1, by simpa [vcues] using h2⟩
    | cons b' rest' =>
      obtain ⟨stf, h1, h2⟩ := ih (fun x hx => hwf x (by simp [hx])) (stored st b.1 b.2.1 b.2.2.1 b.2.2.2) rfl rfl
      refine ⟨stf, ?_, ?_⟩
      · show parseLines o st (b.1.ids ++ b.1.timing :: (b.1.texts ++ (List.replicate (b.1.gap + 1) [] ++ vdocLines ((b' :: rest').map (·.1))))) = _
        rw [block_nonfinal o b.1 b.2.1 b.2.2.1 b.2.2.2 hw _ st hf hn]
        exact h1
      · rw [h2]; simp [stored, vcues]

/-- **the reader on a document**: a header (any lines without `-->`, e.g. `WEBVTT` and an empty line) followed by
    well-formed blocks gives one cue per block, in order -/
theorem read_doc (o : Opts) (content : Str) (header : List Str) (bs : List VT) (hne : bs ≠ [])
    (hh : ∀ l ∈ header, Str.contains arrow l = false)
    (hwf : ∀ b ∈ bs, b.1.WF o b.2.1 b.2.2.1 b.2.2.2)
    (hl : splitlines content = header ++ vdocLines (bs.map (·.1))) :
    read o content = .ok (vcues bs) := by
  unfold read
  rw [hl, parseLines_skip o {} header _ rfl hh]
  obtain ⟨stf, h1, h2⟩ := parseLines_doc o bs hwf {} rfl rfl
  rw [h1]
  have h2' : finalCaps stf = vcues bs := by simpa using h2
  unfold finalCaps at h2'
  simp only [h2']
  cases hv : vcues bs with
  | nil => cases bs with
    | nil => exact absurd rfl hne
    | cons b r => simp [vcues] at hv
  | cons c cs => rfl

/-! ### the usual timing line `start --> end` -/

theorem spanNonSpace_word (a rest : Str) (ha : ∀ c ∈ a, isSpace c = false) :
    spanNonSpace (a ++ ' ' :: rest) = (a, ' ' :: rest) := by
  induction a with
  | nil => simp [spanNonSpace, show isSpace ' ' = true by decide]
  | cons c cs ih =>
    have hc := ha c (by simp)
    simp only [List.cons_append, spanNonSpace, hc, Bool.false_eq_true, if_false]
    rw [ih (fun x hx => ha x (by simp [hx]))]

theorem spanNonSpace_all (a : Str) (ha : ∀ c ∈ a, isSpace c = false) : spanNonSpace a = (a, []) := by
  induction a with
  | nil => rfl
  | cons c cs ih =>
    have hc := ha c (by simp)
    simp only [spanNonSpace, hc, Bool.false_eq_true, if_false]
    rw [ih (fun x hx => ha x (by simp [hx]))]

theorem lstrip_nonspace_head (c : Char) (s : Str) (h : isSpace c = false) : lstripBy isSpace (c :: s) = c :: s := by
  simp [lstripBy, h]

/-- `a --> b` with blank-free, non-empty stamps matches the timing-line pattern with groups `a`, `b` and no settings -/
theorem matchTimingLine_plain (a b : Str) (hane : a ≠ []) (hbne : b ≠ [])
    (ha : ∀ c ∈ a, isSpace c = false) (hb : ∀ c ∈ b, isSpace c = false) :
    matchTimingLine (a ++ " --> ".toList ++ b) = some (a, b, none) := by
  have e : a ++ " --> ".toList ++ b = a ++ ' ' :: ('-' :: '-' :: '>' :: ' ' :: b) := by
    have : " --> ".toList = [' ', '-', '-', '>', ' '] := by decide
    rw [this]; simp
  obtain ⟨b0, bs, rfl⟩ : ∃ b0 bs, b = b0 :: bs := by
    cases b with
    | nil => exact absurd rfl hbne
    | cons x xs => exact ⟨x, xs, rfl⟩
  have hb0 : isSpace b0 = false := hb b0 (by simp)
  have hae : a.isEmpty = false := by cases a <;> simp_all
  unfold matchTimingLine
  rw [e, spanNonSpace_word a _ ha]
  have h1 : dropSpaces1 (' ' :: '-' :: '-' :: '>' :: ' ' :: b0 :: bs) = some ('-' :: '-' :: '>' :: ' ' :: b0 :: bs) := by
    simp [dropSpaces1, show isSpace ' ' = true by decide, lstripBy, show isSpace '-' = false by decide]
  have h2 : dropPrefix? ('-' :: '-' :: '>' :: ' ' :: b0 :: bs) "-->".toList = some (' ' :: b0 :: bs) := by
    have : "-->".toList = ['-', '-', '>'] := by decide
    rw [this]; simp [dropPrefix?]
  have h3 : dropSpaces1 (' ' :: b0 :: bs) = some (b0 :: bs) := by
    simp [dropSpaces1, show isSpace ' ' = true by decide, lstripBy, hb0]
  simp only [hae, Bool.false_eq_true, if_false, h1, h2, h3, spanNonSpace_all _ hb]
  simp [strip, stripBy, rstripBy, lstripBy]

theorem contains_arrow_mid (pre post : Str) : Str.contains arrow (pre ++ '-' :: '-' :: '>' :: post) = true := by
  induction pre with
  | nil => simp [Str.contains, isPrefix, dropPrefix?, arrow]
  | cons c cs ih =>
    simp only [List.cons_append, Str.contains, ih, Bool.or_true]

theorem timing_has_arrow (a b : Str) : Str.contains arrow (a ++ " --> ".toList ++ b) = true := by
  have e : a ++ " --> ".toList ++ b = (a ++ [' ']) ++ '-' :: '-' :: '>' :: (' ' :: b) := by
    have : " --> ".toList = [' ', '-', '-', '>', ' '] := by decide
    rw [this]; simp
  rw [e]; exact contains_arrow_mid _ _

/-- the usual timing line parses to its two instants (default options: no shift, timing errors ignored) -/
theorem parseTimingLine_plain (a b : Str) (sa sb : Nat) (last : Int) (hane : a ≠ []) (hbne : b ≠ [])
    (ha : ∀ c ∈ a, isSpace c = false) (hb : ∀ c ∈ b, isSpace c = false)
    (pa : parseTimestamp a = .ok sa) (pb : parseTimestamp b = .ok sb) :
    parseTimingLine {} (a ++ " --> ".toList ++ b) last = .ok ((sa : Int), (sb : Int), none) := by
  unfold parseTimingLine
  rw [matchTimingLine_plain a b hane hbne ha hb]
  simp [pa, pb, bind, Except.bind, pure, Except.pure]

end PcVerif.Vtt
