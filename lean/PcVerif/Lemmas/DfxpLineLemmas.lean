/-
  C03 for DFXP at the level of a paragraph: the content `DFXPWriter._recreate_text` writes for a caption made of text lines
  is the escaped lines joined by the line-break markup; splitting it at that markup and decoding every piece with the
  XML references gives the lines back.  No text can produce, hide or move a line break.
-/
import PcVerif.Lemmas.XmlEscapeLemmas
import PcVerif.Lemmas.VttRoundTrip
namespace PcVerif.TextW
open Str

/-! ### splitting at a separator whose first character does not occur in the pieces -/

theorem splitOnAux_skip (sep : Str) : ∀ (k : Nat) (a rest : Str), a.length = k →
    splitOnAux sep k (a ++ rest) = splitOnAux sep 0 rest := by
  intro k
  induction k with
  | zero => intro a rest h; have : a = [] := List.length_eq_zero_iff.mp h; subst this; rfl
  | succ k ih =>
    intro a rest h
    cases a with
    | nil => simp at h
    | cons c a =>
      simp only [List.cons_append, splitOnAux]
      exact ih a rest (by simpa using h)

theorem isPrefix_false_of_head (c x : Char) (sep s : Str) (h : x ≠ c) : isPrefix (c :: sep) (x :: s) = false := by
  simp [isPrefix, dropPrefix?, h]

theorem isPrefix_append_self (sep rest : Str) : isPrefix sep (sep ++ rest) = true := by
  unfold isPrefix; rw [dropPrefix?_append]; rfl

/-- a piece without the separator's first character, then the separator: the piece is split off -/
theorem splitOn_piece (c : Char) (sep : Str) : ∀ (l rest : Str), c ∉ l →
    splitOnAux (c :: sep) 0 (l ++ (c :: sep) ++ rest) = l :: splitOnAux (c :: sep) 0 rest := by
  intro l
  induction l with
  | nil =>
    intro rest _
    simp only [List.nil_append, List.cons_append, splitOnAux]
    have hp : isPrefix (c :: sep) (c :: (sep ++ rest)) = true := isPrefix_append_self (c :: sep) rest
    rw [if_pos hp]
    simp only [List.length_cons, Nat.add_sub_cancel]
    rw [splitOnAux_skip (c :: sep) sep.length sep rest rfl]
  | cons x l ih =>
    intro rest h
    have hx : x ≠ c := fun e => h (by simp [e])
    have hl : c ∉ l := fun e => h (List.mem_cons_of_mem _ e)
    simp only [List.cons_append, splitOnAux]
    rw [if_neg (by rw [isPrefix_false_of_head c x sep _ hx]; decide)]
    have := ih rest hl
    simp only [List.cons_append, List.append_assoc] at this ⊢
    rw [this]

theorem splitOn_last (c : Char) (sep : Str) : ∀ (l : Str), c ∉ l → splitOnAux (c :: sep) 0 l = [l] := by
  intro l
  induction l with
  | nil => intro _; rfl
  | cons x l ih =>
    intro h
    have hx : x ≠ c := fun e => h (by simp [e])
    have hl : c ∉ l := fun e => h (List.mem_cons_of_mem _ e)
    simp only [splitOnAux]
    rw [if_neg (by rw [isPrefix_false_of_head c x sep _ hx]; decide), ih hl]

/-- **`sep.join(pieces).split(sep)` gives the pieces back** when the separator's first character occurs in none of them -/
theorem splitOn_join (c : Char) (sep : Str) : ∀ (ls : List Str), ls ≠ [] → (∀ l ∈ ls, c ∉ l) →
    splitOn (c :: sep) (join (c :: sep) ls) = ls := by
  intro ls
  induction ls with
  | nil => intro h; exact absurd rfl h
  | cons l ls ih =>
    intro _ h
    cases ls with
    | nil => simp only [join]; exact splitOn_last c sep l (h l (by simp))
    | cons l' ls' =>
      have e : join (c :: sep) (l :: l' :: ls') = l ++ (c :: sep) ++ join (c :: sep) (l' :: ls') := by simp [join]
      unfold splitOn
      rw [e, splitOn_piece c sep l _ (h l (by simp))]
      have := ih (by simp) (fun x hx => h x (by simp [hx]))
      unfold splitOn at this
      rw [this]

/-! ### the paragraph content -/

/-- a text line as the writers get it: not empty, no white space at its end (the writer strips that) -/
structure LineOK (t : Str) : Prop where
  ne : t ≠ []
  noTrail : ∀ d, t.getLast? = some d → isSpace d = false

theorem escapeChar_ne_nil (c : Char) : escapeChar c ≠ [] := by
  unfold escapeChar; split; decide; split; decide; split; decide; simp

theorem escapeChar_last (c : Char) (hc : isSpace c = false) : ∀ d, (escapeChar c).getLast? = some d → isSpace d = false := by
  unfold escapeChar
  split
  · intro d hd; have : d = ';' := by simpa using hd.symm
    subst this; decide
  · split
    · intro d hd; have : d = ';' := by simpa using hd.symm
      subst this; decide
    · split
      · intro d hd; have : d = ';' := by simpa using hd.symm
        subst this; decide
      · intro d hd; have : d = c := by simpa using hd.symm
        subst this; exact hc

theorem escape_append (a b : Str) : escape (a ++ b) = escape a ++ escape b := by simp [escape]

theorem escape_last (t : Str) (h : LineOK t) : escape t ≠ [] ∧ ∀ d, (escape t).getLast? = some d → isSpace d = false := by
  obtain ⟨hne, hl⟩ := h
  obtain ⟨init, c, rfl⟩ : ∃ init c, t = init ++ [c] :=
    ⟨t.dropLast, t.getLast hne, (List.dropLast_concat_getLast hne).symm⟩
  have hc : isSpace c = false := hl c (by simp)
  rw [escape_append]
  have e1 : escape [c] = escapeChar c := by simp [escape]
  rw [e1]
  constructor
  · intro e
    have := List.append_eq_nil_iff.mp e
    exact escapeChar_ne_nil c this.2
  · intro d hd
    rw [List.getLast?_append] at hd
    cases he : (escapeChar c).getLast? with
    | none =>
      have : escapeChar c = [] := by simpa using he
      exact absurd this (escapeChar_ne_nil c)
    | some d' =>
      rw [he] at hd
      have : d' = d := by simpa using hd
      subst this
      exact escapeChar_last c hc d' he

theorem rstrip_of_last (s : Str) (h : ∀ d, s.getLast? = some d → isSpace d = false) : rstrip s = s := by
  unfold rstrip rstripBy
  cases hs : s.reverse with
  | nil => have : s = [] := by simpa using hs
           subst this; rfl
  | cons d r =>
    have hd : s.getLast? = some d := by
      rw [List.getLast?_eq_head?_reverse, hs]; rfl
    simp only [lstripBy, h d hd, Bool.false_eq_true, if_false]
    rw [← hs]; simp

theorem rstrip_append_keep (acc e : Str) (hne : e ≠ []) (hl : ∀ d, e.getLast? = some d → isSpace d = false) :
    rstrip (acc ++ e) = acc ++ e := by
  apply rstrip_of_last
  intro d hd
  rw [List.getLast?_append] at hd
  cases he : e.getLast? with
  | none => have : e = [] := by simpa using he
            exact absurd this hne
  | some d' =>
    rw [he] at hd
    have : d' = d := by simpa using hd
    subst this; exact hl d' he

theorem tail_last : ∀ (ts : List Str) (acc : Str), (∀ t ∈ ts, LineOK t) → (∀ d, acc.getLast? = some d → isSpace d = false) →
    ∀ d, (acc ++ ts.flatMap (fun x => brkMarkup ++ escape x)).getLast? = some d → isSpace d = false := by
  intro ts
  induction ts with
  | nil => intro acc _ hacc d hd; exact hacc d (by simpa using hd)
  | cons t ts ih =>
    intro acc h hacc d hd
    obtain ⟨hne, hlast⟩ := escape_last t (h t (by simp))
    have hacc' : ∀ d, (acc ++ brkMarkup ++ escape t).getLast? = some d → isSpace d = false := by
      intro d hd
      rw [List.getLast?_append] at hd
      cases he : (escape t).getLast? with
      | none => have : escape t = [] := by simpa using he
                exact absurd this hne
      | some d' =>
        rw [he] at hd
        have : d' = d := by simpa using hd
        subst this; exact hlast d' he
    have := ih (acc ++ brkMarkup ++ escape t) (fun x hx => h x (by simp [hx])) hacc' d
    apply this
    simpa using hd

/-- the fold of `_recreate_text` over break / text pairs of good lines -/
theorem dfxp_fold_tail (tr : Bool) : ∀ (ts : List Str) (acc : Str) (o : Bool), (∀ t ∈ ts, LineOK t) →
    (∀ d, acc.getLast? = some d → isSpace d = false) → tr = false →
    (ts.flatMap fun x => [Node.brk, Node.text x]).foldl (dfxpStep tr) (acc, o) =
      (acc ++ ts.flatMap (fun x => brkMarkup ++ escape x), o) := by
  intro ts
  induction ts with
  | nil => intro acc o _ _ _; simp
  | cons t ts ih =>
    intro acc o h hacc htr
    subst htr
    obtain ⟨hne, hlast⟩ := escape_last t (h t (by simp))
    simp only [List.flatMap_cons, List.cons_append, List.nil_append, List.foldl_cons, dfxpStep, Bool.false_eq_true, if_false,
      List.append_nil]
    rw [rstrip_of_last acc hacc]
    have hacc' : ∀ d, (acc ++ brkMarkup ++ escape t).getLast? = some d → isSpace d = false := by
      intro d hd
      rw [List.getLast?_append] at hd
      cases he : (escape t).getLast? with
      | none => have : escape t = [] := by simpa using he
                exact absurd this hne
      | some d' =>
        rw [he] at hd
        have : d' = d := by simpa using hd
        subst this; exact hlast d' he
    rw [ih (acc ++ brkMarkup ++ escape t) o (fun x hx => h x (by simp [hx])) hacc' rfl]
    simp

/-- **the paragraph content written for a caption of text lines**: the escaped lines joined by `<br/>` + indentation -/
theorem dfxp_text_lines (t : Str) (ts : List Str) (h : ∀ x ∈ t :: ts, LineOK x) (o : Bool) :
    dfxpText o (VttW.lineNodes (t :: ts)) = (join brkMarkup ((t :: ts).map escape), o) := by
  obtain ⟨hne, hlast⟩ := escape_last t (h t (by simp))
  unfold dfxpText
  simp only [VttW.lineNodes, List.foldl_cons, dfxpStep, Bool.false_eq_true, if_false, List.nil_append, List.append_nil]
  rw [dfxp_fold_tail false ts (escape t) o (fun x hx => h x (by simp [hx])) hlast rfl]
  simp only
  have hj : ∀ (t : Str) (ts : List Str),
      escape t ++ ts.flatMap (fun x => brkMarkup ++ escape x) = join brkMarkup ((t :: ts).map escape) := by
    intro t ts
    induction ts generalizing t with
    | nil => simp [join]
    | cons u us ih =>
      have := ih u
      simp only [List.map_cons, List.flatMap_cons] at this ⊢
      simp [join, ← this]
  rw [hj t ts]
  -- the final rstrip changes nothing: the last line does not end in white space
  rw [← hj t ts, rstrip_of_last _ (tail_last ts (escape t) (fun x hx => h x (by simp [hx])) hlast)]

/-- **C03 (DFXP, one paragraph).** for every caption made of text lines (any characters; not empty, no white space at the
    end): cutting the written paragraph content at the line-break markup and decoding each piece with the XML references
    gives exactly the lines, in order — no line is created, lost, split or merged whatever it contains -/
theorem dfxp_lines_roundtrip (t : Str) (ts : List Str) (h : ∀ x ∈ t :: ts, LineOK x) (o : Bool) :
    (splitOn brkMarkup (dfxpText o (VttW.lineNodes (t :: ts))).1).map Spec.xmlUnescape = t :: ts := by
  rw [dfxp_text_lines t ts h o]
  have hb : brkMarkup = '<' :: "br/>\n    ".toList := by decide
  rw [hb, splitOn_join '<' _ ((t :: ts).map escape) (by simp)
    (by intro l hl; obtain ⟨x, _, rfl⟩ := List.mem_map.mp hl; exact (XmlEsc.escape_no_angle x).1)]
  rw [List.map_map]
  have : (Spec.xmlUnescape ∘ escape) = id := by
    funext x; exact XmlEsc.xmlUnescape_escape x
  rw [this, List.map_id]

/-! ### the writers that put a blank after every text node (legacy DFXP, SAMI) -/

theorem rstrip_drop_blank (s : Str) (h : ∀ d, s.getLast? = some d → isSpace d = false) : rstrip (s ++ [' ']) = s := by
  unfold rstrip rstripBy
  have hb : isSpace ' ' = true := by decide
  simp only [List.reverse_append, List.reverse_cons, List.reverse_nil, List.nil_append, List.singleton_append, lstripBy, hb, if_true]
  have := rstrip_of_last s h
  unfold rstrip rstripBy at this
  exact this

theorem last_ok_append (acc e : Str) (hne : e ≠ []) (hl : ∀ d, e.getLast? = some d → isSpace d = false) :
    ∀ d, (acc ++ e).getLast? = some d → isSpace d = false := by
  intro d hd
  rw [List.getLast?_append] at hd
  cases he : e.getLast? with
  | none => have : e = [] := by simpa using he
            exact absurd this hne
  | some d' =>
    rw [he] at hd
    have : d' = d := by simpa using hd
    subst this; exact hl d' he

/-- the shared shape of both folds: the accumulator ends with a blank that the next break (or the end) strips -/
theorem padded_fold (step : Str × Bool → Node → Str × Bool)
    (htext : ∀ (a : Str) (o : Bool) (x : Str), step (a, o) (.text x) = (a ++ escape x ++ [' '], o))
    (hbrk : ∀ (a : Str) (o : Bool), step (a, o) .brk = (rstrip a ++ brkMarkup, o)) :
    ∀ (ts : List Str) (acc : Str) (o : Bool), (∀ t ∈ ts, LineOK t) → (∀ d, acc.getLast? = some d → isSpace d = false) →
      (ts.flatMap fun x => [Node.brk, Node.text x]).foldl step (acc ++ [' '], o) =
        (acc ++ ts.flatMap (fun x => brkMarkup ++ escape x) ++ [' '], o) := by
  intro ts
  induction ts with
  | nil => intro acc o _ _; simp
  | cons t ts ih =>
    intro acc o h hacc
    obtain ⟨hne, hlast⟩ := escape_last t (h t (by simp))
    simp only [List.flatMap_cons, List.cons_append, List.nil_append, List.foldl_cons, hbrk, htext]
    rw [rstrip_drop_blank acc hacc]
    have hacc' := last_ok_append (acc ++ brkMarkup) (escape t) hne hlast
    rw [ih (acc ++ brkMarkup ++ escape t) o (fun x hx => h x (by simp [hx])) hacc']
    simp

theorem join_lines (t : Str) (ts : List Str) :
    escape t ++ ts.flatMap (fun x => brkMarkup ++ escape x) = join brkMarkup ((t :: ts).map escape) := by
  induction ts generalizing t with
  | nil => simp [join]
  | cons u us ih =>
    have := ih u
    simp only [List.map_cons, List.flatMap_cons] at this ⊢
    simp [join, ← this]

/-- `SAMIWriter._recreate_text` for a caption of text lines -/
theorem sami_text_lines (t : Str) (ts : List Str) (h : ∀ x ∈ t :: ts, LineOK x) (o : Bool) :
    samiText o (VttW.lineNodes (t :: ts)) = (join brkMarkup ((t :: ts).map escape), o) := by
  obtain ⟨hne, hlast⟩ := escape_last t (h t (by simp))
  unfold samiText
  simp only [VttW.lineNodes, List.foldl_cons, samiStep, List.nil_append]
  rw [padded_fold samiStep (fun a o x => rfl) (fun a o => rfl) ts (escape t) o (fun x hx => h x (by simp [hx])) hlast]
  simp only
  rw [rstrip_drop_blank _ (tail_last ts (escape t) (fun x hx => h x (by simp [hx])) hlast), join_lines]

/-- `LegacyDFXPWriter._recreate_text` for a caption of text lines -/
theorem legacy_text_lines (t : Str) (ts : List Str) (h : ∀ x ∈ t :: ts, LineOK x) (o : Bool) :
    legacyText o (VttW.lineNodes (t :: ts)) = (join brkMarkup ((t :: ts).map escape), o) := by
  obtain ⟨hne, hlast⟩ := escape_last t (h t (by simp))
  unfold legacyText
  simp only [VttW.lineNodes, List.foldl_cons, dfxpStep, if_true, List.nil_append]
  rw [padded_fold (dfxpStep true) (fun a o x => by simp [dfxpStep]) (fun a o => rfl) ts (escape t) o
    (fun x hx => h x (by simp [hx])) hlast]
  simp only
  rw [rstrip_drop_blank _ (tail_last ts (escape t) (fun x hx => h x (by simp [hx])) hlast), join_lines]

end PcVerif.TextW
