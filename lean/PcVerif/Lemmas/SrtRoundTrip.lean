/-
  SRT write → read round trip (C08 / C02 / C03 for SRT): what `SRTWriter.write` produces for one language is a document
  of well-formed blocks in the sense of `SrtDocLemmas`, so `SRTReader.read` returns one caption per written cue, with the
  instants truncated to milliseconds and the text lines the writer laid out.
-/
import PcVerif.Lemmas.SrtDocLemmas
import PcVerif.Props.C01
namespace PcVerif.Srt
open Str Fmt

/-! ### numbers as written -/

theorem digitChar_facts : ∀ k : Fin 10, isAsciiDigit (Char.ofNat (48 + k.val)) = true ∧ digitVal (Char.ofNat (48 + k.val)) = k.val := by
  decide

theorem digitChar_ascii (n : Nat) : isAsciiDigit (digitChar n) = true :=
  (digitChar_facts ⟨n % 10, Nat.mod_lt _ (by decide)⟩).1

theorem digitChar_val (n : Nat) : digitVal (digitChar n) = n % 10 :=
  (digitChar_facts ⟨n % 10, Nat.mod_lt _ (by decide)⟩).2

theorem nod2 (a b : Char) : natOfDigits [a, b] = digitVal a * 10 + digitVal b := by
  show (0 * 10 + digitVal a) * 10 + digitVal b = _
  omega

theorem nod3 (a b c : Char) : natOfDigits [a, b, c] = digitVal a * 100 + digitVal b * 10 + digitVal c := by
  show ((0 * 10 + digitVal a) * 10 + digitVal b) * 10 + digitVal c = _
  omega

theorem pad2_eq (n : Nat) (h : n < 100) : pad2 n = [digitChar (n / 10), digitChar n] := by
  unfold pad2; rw [if_pos h]

theorem pad3_eq (n : Nat) (h : n < 1000) : pad3 n = [digitChar (n / 100), digitChar (n / 10), digitChar n] := by
  unfold pad3; rw [if_pos h]

theorem pad2_digits (n : Nat) (h : n < 100) : Digits (pad2 n) ∧ natOfDigits (pad2 n) = n ∧ (pad2 n).length = 2 := by
  rw [pad2_eq n h]
  refine ⟨?_, ?_, ?_⟩
  · unfold Digits
    exact ⟨List.cons_ne_nil _ _, by simp only [allAsciiDigits, digitChar_ascii, Bool.and_self]⟩
  · rw [nod2, digitChar_val, digitChar_val]; omega
  · rfl

theorem pad3_digits (n : Nat) (h : n < 1000) : Digits (pad3 n) ∧ natOfDigits (pad3 n) = n ∧ (pad3 n).length = 3 := by
  rw [pad3_eq n h]
  refine ⟨?_, ?_, ?_⟩
  · unfold Digits
    exact ⟨List.cons_ne_nil _ _, by simp only [allAsciiDigits, digitChar_ascii, Bool.and_self]⟩
  · rw [nod3, digitChar_val, digitChar_val, digitChar_val]; omega
  · rfl

theorem digits_ofNat (n : Nat) : Digits (ofNat n) := by
  unfold ofNat
  rw [Nat.toList_repr]
  refine ⟨Nat.toDigits_ne_nil, ?_⟩
  have : ∀ l : Str, (∀ c ∈ l, c.isDigit = true) → allAsciiDigits l = true := by
    intro l hl
    induction l with
    | nil => rfl
    | cons c cs ih =>
      have hc := hl c (by simp)
      have hc' : isAsciiDigit c = true := by
        simp only [Char.isDigit, Bool.and_eq_true, decide_eq_true_eq] at hc
        simp only [isAsciiDigit, Bool.and_eq_true, decide_eq_true_eq]
        exact ⟨hc.1, hc.2⟩
      simp [allAsciiDigits, hc', ih (fun x hx => hl x (by simp [hx]))]
  exact this _ (fun c hc => Nat.isDigit_of_mem_toDigits (by decide) (by decide) hc)

/-! ### stamps as written -/

open PcVerif.Props.C01 in
/-- what the writer prints for an instant: `hh:mm:ss,mmm` with the day dropped, all fields of fixed width -/
theorem written_stamp (t : Rat) :
    ∃ h m sec f : Str, (formatTimestamp t ',').take 12 = srtStamp h m sec f ∧
      Digits h ∧ Digits m ∧ Digits sec ∧ Digits f ∧
      srtStampVal h m sec f = wholeMicro t % 86400000000 / 1000 * 1000 := by
  have hr : (wholeMicro t) / 1000000 % 86400 / 3600 < 100 ∧ (wholeMicro t) / 1000000 % 86400 % 3600 / 60 < 60 ∧
      (wholeMicro t) / 1000000 % 86400 % 3600 % 60 < 60 ∧ (wholeMicro t) % 1000000 / 1000 < 1000 := by omega
  unfold formatTimestamp
  generalize wholeMicro t = us at hr ⊢
  obtain ⟨r1, r2, r3, r4⟩ := hr
  have r1' : us / 1000000 % 86400 / 3600 < 100 := r1
  obtain ⟨d1, v1, l1⟩ := pad2_digits _ r1'
  obtain ⟨d2, v2, l2⟩ := pad2_digits _ (Nat.lt_trans r2 (by decide))
  obtain ⟨d3, v3, l3⟩ := pad2_digits _ (Nat.lt_trans r3 (by decide))
  obtain ⟨d4, v4, l4⟩ := pad3_digits _ r4
  refine ⟨_, _, _, _, ?_, d1, d2, d3, d4, ?_⟩
  · unfold srtStamp
    show List.take 12 (pad2 (us / 1000000 % 86400 / 3600) ++ ':' :: pad2 (us / 1000000 % 86400 % 3600 / 60) ++ ':' ::
        pad2 (us / 1000000 % 86400 % 3600 % 60) ++ ',' :: List.take 3 (pad3 (us % 1000000 / 1000))) = _
    have e3 : List.take 3 (pad3 (us % 1000000 / 1000)) = pad3 (us % 1000000 / 1000) :=
      List.take_of_length_le (Nat.le_of_eq l4)
    rw [e3]
    apply List.take_of_length_le
    simp only [List.length_append, List.length_cons, l1, l2, l3, l4]
    first | done | omega
  · unfold srtStampVal
    rw [v1, v2, v3, v4]
    omega

/-! ### lines of a text -/

theorem splitChar_cons (d c : Char) (s : Str) :
    splitChar d (c :: s) = if c = d then [] :: splitChar d s else
      match splitChar d s with
      | [] => [[c]]
      | h :: t => (c :: h) :: t := rfl

theorem flatMap_splitChar (d : Char) (s : Str) : (splitChar d s).flatMap (· ++ [d]) = s ++ [d] := by
  induction s with
  | nil => rfl
  | cons c s ih =>
    rw [splitChar_cons]
    by_cases hc : c = d
    · rw [if_pos hc]; simp [ih, hc]
    · rw [if_neg hc]
      cases hs : splitChar d s with
      | nil => exact absurd hs (splitChar_ne_nil d s)
      | cons h t => rw [hs] at ih; simp at ih ⊢; exact ih

theorem not_mem_splitChar (d : Char) (s : Str) : ∀ l ∈ splitChar d s, d ∉ l := by
  induction s with
  | nil => intro l hl; simp [splitChar] at hl; subst hl; simp
  | cons c s ih =>
    intro l hl
    rw [splitChar_cons] at hl
    by_cases hc : c = d
    · rw [if_pos hc] at hl
      rcases List.mem_cons.mp hl with rfl | hl
      · simp
      · exact ih l hl
    · rw [if_neg hc] at hl
      cases hs : splitChar d s with
      | nil => exact absurd hs (splitChar_ne_nil d s)
      | cons h t =>
        rw [hs] at hl ih
        rcases List.mem_cons.mp hl with rfl | hl
        · intro hm
          rcases List.mem_cons.mp hm with e | hm
          · exact hc e.symm
          · exact ih h (by simp) hm
        · exact ih l (by simp [hl])

theorem splitChar_join (d : Char) (ls : List Str) (hne : ls ≠ []) (h : ∀ l ∈ ls, d ∉ l) :
    splitChar d (join [d] ls) = ls := by
  induction ls with
  | nil => exact absurd rfl hne
  | cons a t ih =>
    cases t with
    | nil => exact splitChar_no_sep d a (h a (by simp))
    | cons b t' =>
      have : join [d] (a :: b :: t') = a ++ d :: join [d] (b :: t') := by simp [join]
      rw [this, splitChar_append_sep d a _ (h a (by simp)), ih (by simp) (fun l hl => h l (by simp [hl]))]

theorem join_terminated (d : Char) (ls : List Str) (hne : ls ≠ []) :
    join [d] ls ++ [d] = ls.flatMap (· ++ [d]) := by
  induction ls with
  | nil => exact absurd rfl hne
  | cons a t ih =>
    cases t with
    | nil => simp [join]
    | cons b t' =>
      have : join [d] (a :: b :: t') = a ++ d :: join [d] (b :: t') := by simp [join]
      rw [this, List.flatMap_cons, ← ih (by simp)]; simp

/-! ### the written document as blocks -/

def textsOf (nodes : List Node) : List Str :=
  (splitChar '\n' (strip (nodes.foldl recreateLine []))).filter fun l => !(strip l).isEmpty

theorem cueText_eq (nodes : List Node) : cueText nodes = join ['\n'] (textsOf nodes) := rfl

def stampOf (t : Rat) : Str := (formatTimestamp t ',').take 12

def blockOf (count : Nat) (c : RCap) : Block := ⟨ofNat count, stampOf c.start, stampOf c.stop, textsOf c.nodes, 0⟩

def blocksFrom : Nat → List RCap → List Block
  | _, [] => []
  | count, c :: cs => blockOf count c :: blocksFrom (count + 1) cs

/-- lines of a block followed by the blank line the writer puts after every cue -/
def Block.linesNL (B : Block) : List Str := B.idx :: B.timing :: (B.texts ++ [[]])

theorem block_chars (count : Nat) (c : RCap) (h : textsOf c.nodes ≠ []) :
    ofNat count ++ '\n' :: stampOf c.start ++ " --> ".toList ++ stampOf c.stop ++ '\n' :: cueText c.nodes ++ "\n\n".toList
      = (blockOf count c).linesNL.flatMap (· ++ ['\n']) := by
  have hj := join_terminated '\n' (textsOf c.nodes) h
  have e : "\n\n".toList = ['\n', '\n'] := by decide
  simp only [Block.linesNL, blockOf, Block.timing, List.flatMap_cons, List.flatMap_append, List.flatMap_nil, ← hj,
    cueText_eq, e]
  simp

theorem recreateCaptions_blocks : ∀ (cs : List RCap) (count : Nat), (∀ c ∈ cs, textsOf c.nodes ≠ []) →
    recreateCaptions count cs = (blocksFrom count cs).flatMap fun B => B.linesNL.flatMap (· ++ ['\n']) := by
  intro cs
  induction cs with
  | nil => intro _ _; rfl
  | cons c cs ih =>
    intro count h
    have hb := block_chars count c (h c (by simp))
    unfold stampOf at hb
    simp only [recreateCaptions, blocksFrom, List.flatMap_cons]
    rw [← hb, ih (count + 1) (fun x hx => h x (by simp [hx]))]

theorem flatMap_linesNL : ∀ (bs : List Block), bs ≠ [] → (∀ B ∈ bs, B.gap = 0) →
    bs.flatMap Block.linesNL = docLines bs ++ [[]] := by
  intro bs
  induction bs with
  | nil => intro h; exact absurd rfl h
  | cons B rest ih =>
    intro _ hg
    have hB : B.gap = 0 := hg B (by simp)
    cases rest with
    | nil => simp [Block.linesNL, docLines, hB]
    | cons B' rest' =>
      have := ih (by simp) (fun x hx => hg x (by simp [hx]))
      simp only [List.flatMap_cons] at this ⊢
      rw [this]
      simp [Block.linesNL, docLines, hB]

/-! ### round trip -/

/-- an instant as it comes back: whole milliseconds, the day dropped (the formatter prints `timedelta.seconds`) -/
def msT (t : Rat) : Nat := wholeMicro t % 86400000000 / 1000 * 1000

/-- the caption read back for a written cue -/
def readBack (c : RCap) : Caption := ⟨msT c.start, msT c.stop, (lineNodes (textsOf c.nodes)).dropLast⟩

def tblocksFrom : Nat → List RCap → List TBlock
  | _, [] => []
  | count, c :: cs => (blockOf count c, msT c.start, msT c.stop) :: tblocksFrom (count + 1) cs

theorem tblocks_fst : ∀ (cs : List RCap) (count : Nat), (tblocksFrom count cs).map (·.1) = blocksFrom count cs := by
  intro cs; induction cs with
  | nil => intro _; rfl
  | cons c cs ih => intro count; simp [tblocksFrom, blocksFrom, ih]

theorem tblocks_caps : ∀ (cs : List RCap) (count : Nat), caps (tblocksFrom count cs) = cs.map readBack := by
  intro cs; induction cs with
  | nil => intro _; rfl
  | cons c cs ih =>
    intro count
    have := ih (count + 1)
    show (blockOf count c).caption (msT c.start) (msT c.stop) :: caps (tblocksFrom (count + 1) cs) = readBack c :: cs.map readBack
    rw [this]; rfl

open PcVerif.Props.C01 in
theorem blockOf_wf (count : Nat) (c : RCap) (hne : textsOf c.nodes ≠ []) :
    (blockOf count c).WF (msT c.start) (msT c.stop) := by
  obtain ⟨h1, m1, s1, f1, e1, a1, a2, a3, a4, v1⟩ := written_stamp c.start
  obtain ⟨h2, m2, s2, f2, e2, b1, b2, b3, b4, v2⟩ := written_stamp c.stop
  have hnb : ∀ t ∈ textsOf c.nodes, blank t = false := by
    intro t ht
    have := (List.mem_filter.mp ht).2
    simpa using this
  have := srt_block_wf (ofNat count) h1 m1 s1 f1 h2 m2 s2 f2 (textsOf c.nodes) 0 (digits_ofNat count)
    a1 a2 a3 a4 b1 b2 b3 b4 hne hnb
  unfold blockOf stampOf msT
  rw [e1, e2, ← v1, ← v2]
  exact this

theorem tblocks_wf : ∀ (cs : List RCap) (count : Nat), (∀ c ∈ cs, textsOf c.nodes ≠ []) → AllWF (tblocksFrom count cs) := by
  intro cs; induction cs with
  | nil => intro _ _ b hb; simp [tblocksFrom] at hb
  | cons c cs ih =>
    intro count h b hb
    simp only [tblocksFrom, List.mem_cons] at hb
    rcases hb with rfl | hb
    · exact blockOf_wf count c (h c (by simp))
    · exact ih (count + 1) (fun x hx => h x (by simp [hx])) b hb

theorem blocksFrom_gap : ∀ (cs : List RCap) (count : Nat), ∀ B ∈ blocksFrom count cs, B.gap = 0 := by
  intro cs; induction cs with
  | nil => intro _ B hB; simp [blocksFrom] at hB
  | cons c cs ih =>
    intro count B hB
    simp only [blocksFrom, List.mem_cons] at hB
    rcases hB with rfl | hB
    · rfl
    · exact ih _ B hB

/-- the single-language document is the blocks' lines, each ended by a line feed -/
theorem recreateLang_doc (merged : List RCap) (hne : merged ≠ []) (hv : ∀ c ∈ merged, textsOf c.nodes ≠ []) :
    (recreateCaptions 1 merged).dropLast = (docLines (blocksFrom 1 merged)).flatMap (· ++ ['\n']) := by
  have hb : blocksFrom 1 merged ≠ [] := by
    cases merged with
    | nil => exact absurd rfl hne
    | cons c cs => simp [blocksFrom]
  rw [recreateCaptions_blocks merged 1 hv, ← List.flatMap_assoc, flatMap_linesNL _ hb (blocksFrom_gap merged 1)]
  simp only [List.flatMap_append, List.flatMap_cons, List.flatMap_nil, List.nil_append, List.append_nil]
  exact List.dropLast_concat

theorem asciiDigit_noBreak (c : Char) (h : isAsciiDigit c = true) : isLineBreak c = false := by
  have hb : '0' ≤ c ∧ c ≤ '9' := by simpa [isAsciiDigit] using h
  have hn : 48 ≤ c.toNat ∧ c.toNat ≤ 57 := ⟨hb.1, hb.2⟩
  have hc : c = Char.ofNat c.toNat := (Char.ofNat_toNat c).symm
  have hd : c.toNat = 48 ∨ c.toNat = 49 ∨ c.toNat = 50 ∨ c.toNat = 51 ∨ c.toNat = 52 ∨ c.toNat = 53 ∨ c.toNat = 54
      ∨ c.toNat = 55 ∨ c.toNat = 56 ∨ c.toNat = 57 := by omega
  rcases hd with h | h | h | h | h | h | h | h | h | h <;> (rw [hc, h]; decide)

theorem digits_noBreak (s : Str) (h : Digits s) : NoBreak s :=
  fun c hc => asciiDigit_noBreak c (allAsciiDigits_mem s h.2 c hc)

open PcVerif.Props.C01 in
theorem stamp_noBreak (t : Rat) : NoBreak (stampOf t) := by
  obtain ⟨h, m, sec, f, e, d1, d2, d3, d4, _⟩ := written_stamp t
  unfold stampOf; rw [e]; unfold srtStamp
  intro c hc
  simp only [List.mem_append, List.mem_cons] at hc
  rcases hc with ((hc | hc | hc) | hc | hc) | hc | hc
  · exact digits_noBreak h d1 c hc
  · subst hc; decide
  · exact digits_noBreak m d2 c hc
  · subst hc; decide
  · exact digits_noBreak sec d3 c hc
  · subst hc; decide
  · exact digits_noBreak f d4 c hc

theorem mem_docLines : ∀ (bs : List Block) (l : Str), l ∈ docLines bs →
    l = [] ∨ ∃ B ∈ bs, l = B.idx ∨ l = B.timing ∨ l ∈ B.texts := by
  intro bs
  induction bs with
  | nil => intro l hl; simp [docLines] at hl
  | cons B rest ih =>
    intro l hl
    cases rest with
    | nil =>
      simp only [docLines, List.mem_cons, List.mem_append, List.mem_replicate] at hl
      rcases hl with h | h | h | h
      · exact Or.inr ⟨B, by simp, Or.inl h⟩
      · exact Or.inr ⟨B, by simp, Or.inr (Or.inl h)⟩
      · exact Or.inr ⟨B, by simp, Or.inr (Or.inr h)⟩
      · exact Or.inl h.2
    | cons B' rest' =>
      simp only [docLines, List.mem_cons, List.mem_append, List.mem_replicate] at hl
      rcases hl with h | h | h | h | h
      · exact Or.inr ⟨B, by simp, Or.inl h⟩
      · exact Or.inr ⟨B, by simp, Or.inr (Or.inl h)⟩
      · exact Or.inr ⟨B, by simp, Or.inr (Or.inr h)⟩
      · exact Or.inl h.2
      · rcases ih l (by simpa [docLines] using h) with h0 | ⟨X, hX, hx⟩
        · exact Or.inl h0
        · exact Or.inr ⟨X, by simp [hX], hx⟩

theorem mem_blocksFrom : ∀ (cs : List RCap) (count : Nat) (B : Block), B ∈ blocksFrom count cs →
    ∃ c ∈ cs, ∃ k, B = blockOf k c := by
  intro cs; induction cs with
  | nil => intro _ B hB; simp [blocksFrom] at hB
  | cons c cs ih =>
    intro count B hB
    simp only [blocksFrom, List.mem_cons] at hB
    rcases hB with rfl | hB
    · exact ⟨c, by simp, count, rfl⟩
    · obtain ⟨x, hx, k, hk⟩ := ih _ B hB
      exact ⟨x, by simp [hx], k, hk⟩

/-- **SRT write → read.** for every list of cues (any number, any instants, any nodes) whose cues all have visible text,
    reading what the SRT writer wrote gives exactly one caption per written cue, in order: start and end are the
    instants truncated to whole milliseconds, the text lines are the writer's lines.  Nothing is created, lost, split or
    merged; in particular no text can end its cue early or be taken for an index or timing line. -/
theorem srt_write_read (capsIn : List RCap)
    (hne : mergeSame [] capsIn ≠ [])
    (hv : ∀ c ∈ mergeSame [] capsIn, textsOf c.nodes ≠ [])
    (hbr : ∀ c ∈ mergeSame [] capsIn, ∀ t ∈ textsOf c.nodes, NoBreak t) :
    read (write [capsIn]) = .ok ((mergeSame [] capsIn).map readBack) := by
  have hw : write [capsIn] = (recreateCaptions 1 (mergeSame [] capsIn)).dropLast := by
    simp [write, recreateLang, join]
  rw [hw, recreateLang_doc _ hne hv, ← tblocks_fst, ← tblocks_caps _ 1]
  apply srt_document
  · cases hm : mergeSame [] capsIn with
    | nil => exact absurd hm hne
    | cons c cs => simp [tblocksFrom]
  · exact tblocks_wf _ 1 hv
  · intro l hl
    rw [tblocks_fst] at hl
    rcases mem_docLines _ l hl with rfl | ⟨B, hB, hl⟩
    · intro c hc; simp at hc
    · obtain ⟨c, hc, k, rfl⟩ := mem_blocksFrom _ _ B hB
      rcases hl with rfl | rfl | hl
      · exact digits_noBreak _ (digits_ofNat k)
      · intro ch hch
        simp only [blockOf, Block.timing, List.mem_append] at hch
        rcases hch with (hch | hch) | hch
        · exact stamp_noBreak _ ch hch
        · revert hch; revert ch; decide
        · exact stamp_noBreak _ ch hch
      · exact hbr c hc l hl

end PcVerif.Srt
