import PcVerif.Lemmas.SrtRoundTrip
import Mathlib.Tactic.NormNum
import Mathlib.Tactic.Ring
import Mathlib.Tactic.FieldSimp
namespace PcVerif.Dfxp
open Str Fmt PcVerif.Props.C01

/-- **C08 (DFXP hop, one instant).** the DFXP reader reads the stamp the DFXP writers print for an instant as that instant
    truncated to whole milliseconds (the day dropped, as the formatter prints `timedelta.seconds`) -/
theorem dfxp_written_stamp (t : Rat) : Dfxp.timeExpr (formatTimestamp t '.') = .ok (Srt.msT t) := by
  unfold formatTimestamp Srt.msT
  generalize wholeMicro t = us
  have r1 : us / 1000000 % 86400 / 3600 < 100 := by omega
  have r2 : us / 1000000 % 86400 % 3600 / 60 < 100 := by omega
  have r3 : us / 1000000 % 86400 % 3600 % 60 < 100 := by omega
  have r4 : us % 1000000 / 1000 < 1000 := by omega
  obtain ⟨d1, v1, l1⟩ := Srt.pad2_digits _ r1
  obtain ⟨d2, v2, l2⟩ := Srt.pad2_digits _ r2
  obtain ⟨d3, v3, l3⟩ := Srt.pad2_digits _ r3
  obtain ⟨d4, v4, l4⟩ := Srt.pad3_digits _ r4
  have e3 : List.take 3 (pad3 (us % 1000000 / 1000)) = pad3 (us % 1000000 / 1000) := List.take_of_length_le (Nat.le_of_eq l4)
  simp only [e3]
  have := dfxp_clock_fraction _ _ _ _ d1 ⟨d2, l2⟩ ⟨d3, l3⟩ d4
  rw [this, v1, v2, v3, v4, l4]
  congr 1
  have key : us % 86400000000 / 1000 * 1000 = us / 1000000 % 86400 / 3600 * 3600000000 + us / 1000000 % 86400 % 3600 / 60 * 60000000 +
        us / 1000000 % 86400 % 3600 % 60 * 1000000 + us % 1000000 / 1000 * 1000 := by omega
  rw [key]
  generalize us / 1000000 % 86400 / 3600 = A
  generalize us / 1000000 % 86400 % 3600 / 60 = B
  generalize us / 1000000 % 86400 % 3600 % 60 = C
  generalize us % 1000000 / 1000 = D
  have hr : ((A * 3600000000 + B * 60000000 + C * 1000000 : Nat) : Rat) + mkRat (D : Int) (10 ^ 3) * ((1000000 : Nat) : Rat)
      = (((A * 3600000000 + B * 60000000 + C * 1000000 + D * 1000 : Nat) : Int) : Rat) := by
    rw [Rat.mkRat_eq_div]; push_cast; ring
  rw [hr, Rat.floor_intCast]
end PcVerif.Dfxp
