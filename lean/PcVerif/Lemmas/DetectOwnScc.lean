/-
  C20, third clause for the SCC writer: the file the SCC writer produces is detected as SCC.
-/
import PcVerif.Lemmas.SccFileLemmas
import PcVerif.Lemmas.DetectOwn
namespace PcVerif.SccW
open Str Scc Detect

/-- the characters an SCC file is made of -/
def FileChar (c : Char) : Prop :=
  c ∈ Generated.Scc.header.toList ∨ isStamp c = true ∨ isHex c = true ∨ c = '\t' ∨ c = ' ' ∨ c = '\n'

theorem wordsLine_chars (ts : Str) (ws : List String) (hts : ∀ c ∈ ts, isStamp c = true) (hw : ∀ w ∈ ws, HexWord w) :
    ∀ c ∈ ts ++ '\t' :: joinWords ws, FileChar c := by
  intro c hc
  simp only [List.mem_append, List.mem_cons] at hc
  rcases hc with h | h | h
  · exact Or.inr (Or.inl (hts c h))
  · exact Or.inr (Or.inr (Or.inr (Or.inl h)))
  · rcases joinWords_mem _ c h with e | ⟨x, hx, hcx⟩
    · exact Or.inr (Or.inr (Or.inr (Or.inr (Or.inl e))))
    · exact Or.inr (Or.inr (Or.inl ((hw x hx).hex c hcx)))

theorem fileLines_chars (c : FileCap) (hc : c.ok) : ∀ l ∈ c.fileLines, ∀ x ∈ l, FileChar x := by
  obtain ⟨h1, h2, h3, h4⟩ := hc
  intro l hl
  unfold FileCap.fileLines at hl
  simp only [List.mem_append, List.mem_cons, List.not_mem_nil, or_false] at hl
  rcases hl with (rfl | rfl) | hl
  · exact wordsLine_chars _ _ h1 (captionWords_hex c.lines h2 h3)
  · intro x hx; simp at hx
  · cases hcl : c.clear with
    | none => simp [hcl] at hl
    | some t =>
      simp only [hcl, List.mem_cons, List.not_mem_nil, or_false] at hl
      rcases hl with rfl | rfl
      · exact wordsLine_chars _ _ (h4 t hcl) (by intro w hw; apply hexWord_of_B; revert w; decide)
      · intro x hx; simp at hx

theorem fileText_chars (caps : List FileCap) (hok : ∀ c ∈ caps, c.ok) : ∀ x ∈ fileText caps, FileChar x := by
  intro x hx
  unfold fileText at hx
  simp only [List.mem_flatMap, List.mem_cons, List.mem_append, List.mem_singleton] at hx
  obtain ⟨l, hl, hxl⟩ := hx
  rcases hxl with hxl | hxl
  · rcases hl with rfl | rfl | ⟨c, hc, hlc⟩
    · exact Or.inl hxl
    · simp at hxl
    · exact fileLines_chars c (hok c hc) l hlc x hxl
  · exact Or.inr (Or.inr (Or.inr (Or.inr (Or.inr (by simpa using hxl)))))

theorem fileChar_avoids (c : Char) (h : FileChar c) : c ≠ '<' ∧ c ≠ 'W' ∧ c ≠ '{' := by
  rcases h with h | h | h | h | h | h
  · have : ∀ y ∈ Generated.Scc.header.toList, y ≠ '<' ∧ y ≠ 'W' ∧ y ≠ '{' := by decide
    exact this c h
  · refine ⟨?_, ?_, ?_⟩ <;> (intro e; subst e; revert h; decide)
  · refine ⟨?_, ?_, ?_⟩ <;> (intro e; subst e; revert h; decide)
  · subst h; decide
  · subst h; decide
  · subst h; decide

/-- **C20 (own output, SCC).** every file of the shape the SCC writer produces — header, empty line, caption and clearing lines
    of time codes and hexadecimal words — is detected as SCC: no `<` for the DFXP and SAMI markers, no `W` for `WEBVTT`, no
    `{` for MicroDVD, a first line that is no number for SRT, and the header line for SCC -/
theorem detect_own_scc_file (caps : List FileCap) (hok : ∀ c ∈ caps, c.ok) :
    detectFormat (fileText caps) = .ok (some .scc) := by
  have hch := fileText_chars caps hok
  have hlt : '<' ∉ fileText caps := fun h => (fileChar_avoids _ (hch _ h)).1 rfl
  have hW : 'W' ∉ fileText caps := fun h => (fileChar_avoids _ (hch _ h)).2.1 rfl
  have hlines : splitlines (fileText caps) = Generated.Scc.header.toList :: [] :: caps.flatMap FileCap.fileLines := by
    unfold fileText
    apply Srt.splitlines_terminated
    intro l hl
    simp only [List.mem_cons, List.mem_flatMap] at hl
    rcases hl with rfl | rfl | ⟨c, hc, hl⟩
    · intro x hx
      have : ∀ y ∈ Generated.Scc.header.toList, isLineBreak y = false := by decide
      exact this x hx
    · intro x hx; simp at hx
    · exact fileLines_noBreak c (hok c hc) l hl
  have hne : (fileText caps).isEmpty = false := by
    unfold fileText
    simp [List.flatMap_cons]
  obtain ⟨m1, m2, m3, m4, l1, l2⟩ := markers
  have d1 : detectDfxp (fileText caps) = false := by
    unfold detectDfxp
    rw [l1]
    simp only [if_true]
    apply not_contains_of_not_mem dfxpMarker _ '<' (by rw [m1]; decide)
    intro h; exact hlt (lt_of_mem_lower _ h)
  have hhead : ∃ rest, fileText caps = 'S' :: rest := by
    unfold fileText
    have hh : Generated.Scc.header.toList = 'S' :: "cenarist_SCC V1.0".toList := by decide
    simp only [List.flatMap_cons, hh, List.cons_append]
    exact ⟨_, rfl⟩
  obtain ⟨rest0, hS⟩ := hhead
  have d2 : detectMicrodvd (fileText caps) = false := by
    rw [hS]
    simp [detectMicrodvd, matchBraceNum]
  have d3 : detectWebvtt (fileText caps) = false := by
    unfold detectWebvtt
    exact not_contains_of_not_mem webvttMarker _ 'W' (by rw [m3]; decide) hW
  have d4 : detectSami (fileText caps) = false := by
    unfold detectSami
    rw [l2]
    simp only [if_true]
    apply not_contains_of_not_mem samiMarker _ '<' (by rw [m2]; decide)
    intro h; exact hlt (lt_of_mem_lower _ h)
  have d5 : detectSrt (fileText caps) = .ok false := by
    unfold detectSrt
    rw [hlines]
    simp only
    have : isDigitStr Generated.Scc.header.toList = false := by decide
    rw [this]
    rfl
  have d6 : detectScc (fileText caps) = .ok true := by
    unfold detectScc
    rw [hlines]
    simp only
    have : (Generated.Scc.header.toList == sccHeader) = true := by decide
    rw [this]
  unfold detectFormat
  rw [hne]
  simp only [Bool.false_eq_true, if_false]
  have ho : Detect.order = [.dfxp, .microdvd, .webvtt, .sami, .srt, .scc] := by decide
  rw [ho]
  simp [firstAccepting, detectOne, d1, d2, d3, d4, d5, d6]

/-- **C20 (own output, SCC writer).** the document the SCC writer model produces for any caption set of basic characters is
    detected as SCC -/
theorem detect_own_scc (caps : List (List Str × Rat × Rat)) (hok : ∀ c ∈ caps, c.1.length ≤ 15 ∧ ∀ l ∈ c.1, ∀ x ∈ l, Basic x) :
    detectFormat (write caps) = .ok (some .scc) := by
  obtain ⟨fcs, e, ok, _⟩ := write_is_file caps hok
  rw [e]
  exact detect_own_scc_file fcs ok

end PcVerif.SccW
