/-
  C16, timing of roll-up captions: a carriage return stores the rolled-out row from the time of the previous carriage return
  to the time of this one, and the next row starts at exactly that time.
-/
import PcVerif.Lemmas.SccFrameLemmas
namespace PcVerif.Scc

/-- all pre-captions carry the given times -/
def AllTimes (start stop : Rat) (l : List Cap) : Prop := ∀ c ∈ l, c.start = start ∧ c.stop = stop

theorem toCaps_times (start stop : Rat) : ∀ (ns : List INode) (acc : List Cap), AllTimes start stop acc →
    AllTimes start stop (toCaps start stop acc ns) := by
  intro ns
  induction ns with
  | nil => intro acc h; exact h
  | cons n ns ih =>
    intro acc h
    have hadd : ∀ (f : Cap → Cap), (∀ c, (f c).start = c.start ∧ (f c).stop = c.stop) → AllTimes start stop
        (match acc.getLast? with
         | some c => acc.dropLast ++ [f c]
         | none => acc) := by
      intro f hf
      cases hl : acc.getLast? with
      | none => exact h
      | some c =>
        intro x hx
        rcases List.mem_append.mp hx with hx | hx
        · exact h x (List.dropLast_subset acc hx)
        · simp only [List.mem_singleton] at hx
          subst hx
          have := h c (List.mem_of_getLast? hl)
          exact ⟨(hf c).1.trans this.1, (hf c).2.trans this.2⟩
    unfold toCaps
    simp only
    split
    · split
      · exact ih acc h
      · exact ih _ (hadd (fun c => { c with nodes := c.nodes ++ [CNode.text n.text n.pos], layout := some n.pos }) (fun c => ⟨rfl, rfl⟩))
    · apply ih
      intro x hx
      rcases List.mem_append.mp hx with hx | hx
      · exact h x hx
      · simp only [List.mem_singleton] at hx; subst hx; exact ⟨rfl, rfl⟩
    · exact ih _ (hadd (fun c => { c with nodes := c.nodes ++ [CNode.brk n.pos], layout := c.layout }) (fun c => ⟨rfl, rfl⟩))
    · exact ih _ (hadd (fun c => { c with nodes := c.nodes ++ [CNode.style true n.pos], layout := c.layout }) (fun c => ⟨rfl, rfl⟩))
    · exact ih _ (hadd (fun c => { c with nodes := c.nodes ++ [CNode.style false n.pos], layout := c.layout }) (fun c => ⟨rfl, rfl⟩))

theorem setEnd_length (e : Rat) : ∀ (idxs : List Nat) (stash : List Cap), (setEnd stash idxs e).length = stash.length := by
  intro idxs
  induction idxs with
  | nil => intro stash; rfl
  | cons j js ih =>
    intro stash
    unfold setEnd
    simp only [List.foldl_cons]
    have := ih (stash.modify j (fun c => { c with stop := e }))
    unfold setEnd at this
    rw [this, List.length_modify]

theorem setEnd_get (e : Rat) : ∀ (idxs : List Nat) (stash : List Cap) (i : Nat) (c : Cap),
    (setEnd stash idxs e)[i]? = some c →
    ∃ c0, stash[i]? = some c0 ∧ c.start = c0.start ∧ c.nodes = c0.nodes ∧ (i ∈ idxs → c.stop = e) ∧ (i ∉ idxs → c.stop = c0.stop) := by
  intro idxs
  induction idxs with
  | nil => intro stash i c h; exact ⟨c, h, rfl, rfl, by simp, fun _ => rfl⟩
  | cons j js ih =>
    intro stash i c h
    unfold setEnd at h
    simp only [List.foldl_cons] at h
    obtain ⟨c1, h1, hs, hn, hin, hnot⟩ := ih (stash.modify j (fun c => { c with stop := e })) i c h
    rw [List.getElem?_modify] at h1
    cases hb : stash[i]? with
    | none => rw [hb] at h1; simp at h1
    | some c0 =>
      rw [hb] at h1
      by_cases hji : j = i
      · subst hji
        simp only [if_true] at h1
        have h1' : c1 = { c0 with stop := e } := by simpa using h1.symm
        subst h1'
        refine ⟨c0, rfl, hs, hn, ?_, ?_⟩
        · intro _
          by_cases hm : j ∈ js
          · exact hin hm
          · rw [hnot hm]
        · intro hm; exact absurd (by simp) hm
      · simp only [hji, if_false] at h1
        have h1' : c1 = c0 := by simpa using h1.symm
        subst h1'
        refine ⟨c1, rfl, hs, hn, ?_, ?_⟩
        · intro hm
          rcases List.mem_cons.mp hm with rfl | hm
          · exact absurd rfl hji
          · exact hin hm
        · intro hm
          exact hnot (fun x => hm (List.mem_cons_of_mem _ x))

theorem store_shape (S : Stash) (c : Creator) (start stop : Rat) (hne : c.isEmpty = false) :
    ∃ stash appendable, (store S c start stop).stash = stash ++ appendable ∧
      (store S c start stop).editing = List.range' stash.length appendable.length ∧ AllTimes start stop appendable := by
  unfold store
  rw [hne]
  simp only [Bool.false_eq_true, if_false]
  refine ⟨_, _, rfl, rfl, ?_⟩
  intro x hx
  have hall := toCaps_times start stop (formatItalics c.coll) [{ start := start, stop := stop }]
    (by intro y hy; simp only [List.mem_singleton] at hy; subst hy; exact ⟨rfl, rfl⟩)
  exact hall x (List.mem_filter.mp hx).1

/-- what `create_and_store` appends: captions that all carry the given start and end; they are the ones `editing` names -/
theorem store_new_times (S : Stash) (c : Creator) (start stop : Rat) (hne : c.isEmpty = false) :
    ∀ i ∈ (store S c start stop).editing, ∃ cap, (store S c start stop).stash[i]? = some cap ∧ cap.start = start ∧ cap.stop = stop := by
  obtain ⟨stash, appendable, h1, h2, h3⟩ := store_shape S c start stop hne
  rw [h1, h2]
  intro i hi
  simp only [List.mem_range'_1] at hi
  have hlt : i - stash.length < appendable.length := by omega
  refine ⟨appendable[i - stash.length], ?_, h3 _ (List.getElem_mem hlt)⟩
  rw [List.getElem?_append_right (by omega), List.getElem?_eq_getElem hlt]

theorem now_of (r : Reader) (t : Rat) (h : timeOf r.tc r.frames r.off = some t) : r.now = (r, t) := by
  unfold Reader.now; rw [h]

/-- **C16 (a rolled-out row ends exactly when the next one begins).** at a carriage return the row that rolls out is
    stored from the time of the previous carriage return (`r.time`) to the instant of this one, and that instant is the
    start of whatever is stored next -/
theorem rollUp_contiguous (r : Reader) (t : Rat) (hn : timeOf r.tc r.frames r.off = some t) (hne : r.buf.isEmpty = false) :
    (rollUp r).time = t ∧
    ∀ i ∈ (rollUp r).S.editing, ∃ c, (rollUp r).S.stash[i]? = some c ∧ c.start = r.time ∧ c.stop = t := by
  unfold rollUp
  simp only
  have hs := same_setBuf { r with S := store r.S r.buf r.time } {}
  have hnow : (({ r with S := store r.S r.buf r.time } : Reader).setBuf {}).now
      = (({ r with S := store r.S r.buf r.time } : Reader).setBuf {}, t) := by
    apply now_of
    rw [hs.1, hs.2.1, hs.2.2]; exact hn
  rw [hnow]
  simp only
  have hS : (({ r with S := store r.S r.buf r.time } : Reader).setBuf {}).S = store r.S r.buf r.time := by
    cases ha : r.active <;> simp [Reader.setBuf, ha]
  refine ⟨trivial, ?_⟩
  rw [hS]
  intro i hi
  have hi' : i ∈ (store r.S r.buf r.time).editing := hi
  obtain ⟨cap, hc, hst, _⟩ := store_new_times r.S r.buf r.time 0 hne i hi'
  have hlt : i < (store r.S r.buf r.time).stash.length := (List.getElem?_eq_some_iff.mp hc).1
  have hlen := setEnd_length t (store r.S r.buf r.time).editing (store r.S r.buf r.time).stash
  have hget : (setEnd (store r.S r.buf r.time).stash (store r.S r.buf r.time).editing t)[i]?
      = some ((setEnd (store r.S r.buf r.time).stash (store r.S r.buf r.time).editing t)[i]'(by omega)) :=
    List.getElem?_eq_getElem (by omega)
  obtain ⟨c0, h0, hs0, _, hin, _⟩ := setEnd_get t _ _ i _ hget
  rw [hc] at h0; cases h0
  exact ⟨_, hget, hs0.trans hst, hin hi'⟩

end PcVerif.Scc
