/-
  The WebVTT reader's entity decoding is a chain of whole-string `str.replace` passes.  On text written by the WebVTT
  writer's escaping this chain does what a single left-to-right decoder does (`Spec.vttDecode`), hence returns the text:
  the escaped string is cut into tokens (`&amp;`, `&lt;`, `&gt;`, single characters) and every pass acts token by token.
-/
import PcVerif.Lemmas.VttLemmas
import PcVerif.Model.Vtt
import PcVerif.Lemmas.SrtDocLemmas
namespace PcVerif.Spec
open Str TextW

abbrev tAmp : Str := ['&', 'a', 'm', 'p', ';']
abbrev tLt : Str := ['&', 'l', 't', ';']
abbrev tGt : Str := ['&', 'g', 't', ';']

/-- tokens of escaped text -/
inductive Good : Str → Prop
  | amp : Good tAmp
  | lt : Good tLt
  | gt : Good tGt
  | ch (c : Char) (h : c ≠ '&') : Good [c]

def sub (p new tok : Str) : Str := if tok = p then new else tok

/-- a pattern that can only match a whole entity token -/
structure Pat (p : Str) : Prop where
  amp : ∀ rest, isPrefix p (tAmp ++ rest) = decide (tAmp = p)
  lt : ∀ rest, isPrefix p (tLt ++ rest) = decide (tLt = p)
  gt : ∀ rest, isPrefix p (tGt ++ rest) = decide (tGt = p)
  ch : ∀ c rest, c ≠ '&' → isPrefix p (c :: rest) = false
  len : 2 ≤ p.length

theorem replaceAux_skip (old new : Str) (a b : Str) : replaceAux old new a.length (a ++ b) = replaceAux old new 0 b := by
  induction a with
  | nil => rfl
  | cons x xs ih => simpa [replaceAux] using ih

theorem replaceAux_copy (p new : Str) (hp : Pat p) (a b : Str) (ha : ∀ c ∈ a, c ≠ '&') :
    replaceAux p new 0 (a ++ b) = a ++ replaceAux p new 0 b := by
  induction a with
  | nil => rfl
  | cons x xs ih =>
    have hx : x ≠ '&' := ha x (by simp)
    simp only [List.cons_append, replaceAux, hp.ch x _ hx, Bool.false_eq_true, if_false]
    rw [ih (fun c hc => ha c (by simp [hc]))]

/-- one pass acts token by token -/
theorem pass_tokens (p new : Str) (hp : Pat p) : ∀ (toks : List Str), (∀ t ∈ toks, Good t) →
    replace p new toks.flatten = (toks.map (sub p new)).flatten := by
  intro toks
  induction toks with
  | nil => intro _; rfl
  | cons tok rest ih =>
    intro hg
    have ihr := ih (fun t ht => hg t (by simp [ht]))
    unfold replace at ihr ⊢
    have key : ∀ (body : Str), tok = '&' :: body → (∀ c ∈ body, c ≠ '&') → body.length + 1 = tok.length →
        isPrefix p (tok ++ rest.flatten) = decide (tok = p) →
        replaceAux p new 0 (tok ++ rest.flatten) = sub p new tok ++ replaceAux p new 0 rest.flatten := by
      intro body hb hbody hlen hpre
      by_cases he : tok = p
      · have h1 : isPrefix p ('&' :: (body ++ rest.flatten)) = true := by
          rw [← List.cons_append, ← hb, hpre]; simp [he]
        rw [hb, List.cons_append]
        simp only [replaceAux, h1, if_true]
        have hl : p.length - 1 = body.length := by rw [← he, ← hlen]; simp
        rw [hl, replaceAux_skip, sub, if_pos (by rw [← hb]; exact he)]
      · have h1 : isPrefix p ('&' :: (body ++ rest.flatten)) = false := by
          rw [← List.cons_append, ← hb, hpre]; simp [he]
        rw [hb, List.cons_append]
        simp only [replaceAux, h1, Bool.false_eq_true, if_false]
        rw [replaceAux_copy p new hp body _ hbody, sub, if_neg (by rw [← hb]; exact he)]
        simp
    simp only [List.flatten_cons, List.map_cons]
    rw [← ihr]
    cases hg tok (by simp) with
    | amp => exact key ['a', 'm', 'p', ';'] rfl (by decide) rfl (hp.amp _)
    | lt => exact key ['l', 't', ';'] rfl (by decide) rfl (hp.lt _)
    | gt => exact key ['g', 't', ';'] rfl (by decide) rfl (hp.gt _)
    | ch c hc =>
      have hne : ([c] : Str) ≠ p := by
        intro e
        have := hp.len; rw [← e] at this; simp at this
      simp only [List.cons_append, List.nil_append, replaceAux, hp.ch c _ hc, Bool.false_eq_true, if_false, sub, if_neg hne]

abbrev pLrm : Str := ['&', 'l', 'r', 'm', ';']
abbrev pRlm : Str := ['&', 'r', 'l', 'm', ';']
abbrev pNbsp : Str := ['&', 'n', 'b', 's', 'p', ';']

theorem isPrefix_head_ne (p : Str) (q : Char) (c : Char) (rest : Str) (h : c ≠ q) : isPrefix (q :: p) (c :: rest) = false := by
  simp [isPrefix, dropPrefix?, h]

theorem pat_lt : Pat tLt := ⟨fun r => by simp [isPrefix, dropPrefix?], fun r => by simp [isPrefix, dropPrefix?],
  fun r => by simp [isPrefix, dropPrefix?], fun c r h => isPrefix_head_ne _ _ _ _ h, by decide⟩
theorem pat_gt : Pat tGt := ⟨fun r => by simp [isPrefix, dropPrefix?], fun r => by simp [isPrefix, dropPrefix?],
  fun r => by simp [isPrefix, dropPrefix?], fun c r h => isPrefix_head_ne _ _ _ _ h, by decide⟩
theorem pat_amp : Pat tAmp := ⟨fun r => by simp [isPrefix, dropPrefix?], fun r => by simp [isPrefix, dropPrefix?],
  fun r => by simp [isPrefix, dropPrefix?], fun c r h => isPrefix_head_ne _ _ _ _ h, by decide⟩
theorem pat_lrm : Pat pLrm := ⟨fun r => by simp [isPrefix, dropPrefix?], fun r => by simp [isPrefix, dropPrefix?],
  fun r => by simp [isPrefix, dropPrefix?], fun c r h => isPrefix_head_ne _ _ _ _ h, by decide⟩
theorem pat_rlm : Pat pRlm := ⟨fun r => by simp [isPrefix, dropPrefix?], fun r => by simp [isPrefix, dropPrefix?],
  fun r => by simp [isPrefix, dropPrefix?], fun c r h => isPrefix_head_ne _ _ _ _ h, by decide⟩
theorem pat_nbsp : Pat pNbsp := ⟨fun r => by simp [isPrefix, dropPrefix?], fun r => by simp [isPrefix, dropPrefix?],
  fun r => by simp [isPrefix, dropPrefix?], fun c r h => isPrefix_head_ne _ _ _ _ h, by decide⟩

/-- what all passes together do to a token -/
def decTok (tok : Str) : Str := if tok = tAmp then ['&'] else if tok = tLt then ['<'] else if tok = tGt then ['>'] else tok

/-- the six entity passes of `WebVTTReader._decode`, in the reader's order; `xl xr xn` are what `&lrm; &rlm; &nbsp;` become -/
def entityPasses (xl xr xn : Str) (s : Str) : Str :=
  replace tAmp ['&'] (replace pNbsp xn (replace pRlm xr (replace pLrm xl (replace tGt ['>'] (replace tLt ['<'] s)))))

theorem good_sub_lt {t : Str} (h : Good t) : Good (sub tLt ['<'] t) := by
  cases h with
  | amp => simpa [sub] using Good.amp
  | lt => simpa [sub] using Good.ch '<' (by decide)
  | gt => simpa [sub] using Good.gt
  | ch c hc => simpa [sub] using Good.ch c hc

theorem good_sub_gt {t : Str} (h : Good t) : Good (sub tGt ['>'] t) := by
  cases h with
  | amp => simpa [sub] using Good.amp
  | lt => simpa [sub] using Good.lt
  | gt => simpa [sub] using Good.ch '>' (by decide)
  | ch c hc => simpa [sub] using Good.ch c hc

theorem sub_id_of_good (p new : Str) (hp : p ≠ tAmp ∧ p ≠ tLt ∧ p ≠ tGt ∧ 2 ≤ p.length) {t : Str} (h : Good t) : sub p new t = t := by
  cases h with
  | amp => simp [sub, hp.1.symm]
  | lt => simp [sub, hp.2.1.symm]
  | gt => simp [sub, hp.2.2.1.symm]
  | ch c hc =>
    have : ([c] : Str) ≠ p := by intro e; have := hp.2.2.2; rw [← e] at this; simp at this
    simp [sub, this]

theorem map_sub_id (p new : Str) (hp : p ≠ tAmp ∧ p ≠ tLt ∧ p ≠ tGt ∧ 2 ≤ p.length) (toks : List Str) (hg : ∀ t ∈ toks, Good t) :
    toks.map (sub p new) = toks := by
  induction toks with
  | nil => rfl
  | cons t ts ih =>
    simp only [List.map_cons, sub_id_of_good p new hp (hg t (by simp)), ih (fun x hx => hg x (by simp [hx]))]

theorem decTok_eq {t : Str} (h : Good t) : sub tAmp ['&'] (sub tGt ['>'] (sub tLt ['<'] t)) = decTok t := by
  cases h with
  | amp => simp [sub, decTok]
  | lt => simp [sub, decTok]
  | gt => simp [sub, decTok]
  | ch c hc => simp [sub, decTok]

/-- all passes together act token by token -/
theorem passes_tokens (xl xr xn : Str) (toks : List Str) (hg : ∀ t ∈ toks, Good t) :
    entityPasses xl xr xn toks.flatten = (toks.map decTok).flatten := by
  unfold entityPasses
  have g1 : ∀ t ∈ toks.map (sub tLt ['<']), Good t := by
    intro t ht; obtain ⟨u, hu, rfl⟩ := List.mem_map.mp ht; exact good_sub_lt (hg u hu)
  have g2 : ∀ t ∈ (toks.map (sub tLt ['<'])).map (sub tGt ['>']), Good t := by
    intro t ht; obtain ⟨u, hu, rfl⟩ := List.mem_map.mp ht; exact good_sub_gt (g1 u hu)
  rw [pass_tokens tLt ['<'] pat_lt toks hg, pass_tokens tGt ['>'] pat_gt _ g1,
    pass_tokens pLrm xl pat_lrm _ g2, map_sub_id pLrm xl (by decide) _ g2,
    pass_tokens pRlm xr pat_rlm _ g2, map_sub_id pRlm xr (by decide) _ g2,
    pass_tokens pNbsp xn pat_nbsp _ g2, map_sub_id pNbsp xn (by decide) _ g2,
    pass_tokens tAmp ['&'] pat_amp _ g2]
  congr 1
  simp only [List.map_map]
  apply List.map_congr_left
  intro t ht
  exact decTok_eq (hg t ht)

/-! ### cutting escaped text into tokens -/

/-- every `&` starts one of the three entities the writer produces -/
def AmpOK : Str → Prop
  | [] => True
  | c :: s => (c = '&' → isPrefix "amp;".toList s = true ∨ isPrefix "lt;".toList s = true ∨ isPrefix "gt;".toList s = true) ∧ AmpOK s

def tokAux : Nat → Str → List Str
  | _, [] => []
  | k + 1, _ :: s => tokAux k s
  | 0, c :: s =>
    if c = '&' then
      if isPrefix "amp;".toList s then tAmp :: tokAux 4 s
      else if isPrefix "lt;".toList s then tLt :: tokAux 3 s
      else if isPrefix "gt;".toList s then tGt :: tokAux 3 s
      else ['&'] :: tokAux 0 s
    else [c] :: tokAux 0 s

theorem tokAux_drop (k : Nat) (s : Str) : tokAux k s = tokAux 0 (s.drop k) := by
  induction s generalizing k with
  | nil => cases k <;> simp [tokAux]
  | cons c s ih =>
    cases k with
    | zero => simp
    | succ k => simp [tokAux, ih k]

theorem AmpOK_drop (k : Nat) (s : Str) (h : AmpOK s) : AmpOK (s.drop k) := by
  induction s generalizing k with
  | nil => simpa using h
  | cons c s ih =>
    cases k with
    | zero => simpa using h
    | succ k => simp only [List.drop_succ_cons]; exact ih k h.2

theorem isPrefix_eq_append {p s : Str} (h : isPrefix p s = true) : s = p ++ s.drop p.length := by
  unfold isPrefix at h
  cases hd : dropPrefix? s p with
  | none => rw [hd] at h; simp at h
  | some r =>
    have := dropPrefix_eq_append hd
    rw [this]; simp

/-- the tokens are good, give the string back, and decode like the single-pass decoder -/
theorem tok_spec (n : Nat) : ∀ s : Str, s.length ≤ n → AmpOK s →
    (∀ t ∈ tokAux 0 s, Good t) ∧ (tokAux 0 s).flatten = s ∧ ((tokAux 0 s).map decTok).flatten = vttDecode s := by
  induction n with
  | zero =>
    intro s hs _
    have : s = [] := List.eq_nil_of_length_eq_zero (Nat.le_zero.mp hs)
    subst this; simp [tokAux, vttDecode, vttDecodeAux]
  | succ n ih =>
    intro s hs hok
    cases s with
    | nil => simp [tokAux, vttDecode, vttDecodeAux]
    | cons c s =>
      have hl : s.length ≤ n := by simpa using hs
      by_cases hc : c = '&'
      · subst hc
        have hent := hok.1 rfl
        have branch : ∀ (body : Str) (k : Nat) (tok : Str) (out : Char), body.length = k → isPrefix body s = true →
            Good tok → tok = '&' :: body → decTok tok = [out] →
            tokAux 0 ('&' :: s) = tok :: tokAux k s → vttDecode ('&' :: s) = out :: vttDecodeAux k s →
            (∀ t ∈ tokAux 0 ('&' :: s), Good t) ∧ (tokAux 0 ('&' :: s)).flatten = '&' :: s ∧
              ((tokAux 0 ('&' :: s)).map decTok).flatten = vttDecode ('&' :: s) := by
          intro body k tok out hk hpre hgood htok hdec e1 e2
          have hs' : s = body ++ s.drop k := by rw [← hk]; exact isPrefix_eq_append hpre
          have hdl : (s.drop k).length ≤ n := by rw [List.length_drop]; omega
          obtain ⟨i1, i2, i3⟩ := ih (s.drop k) hdl (AmpOK_drop k s hok.2)
          rw [e1, e2, tokAux_drop k s, vttDecodeAux_drop k s]
          refine ⟨?_, ?_, ?_⟩
          · intro t ht
            rcases List.mem_cons.mp ht with rfl | ht
            · exact hgood
            · exact i1 t ht
          · rw [List.flatten_cons, i2, htok]; simp; exact hs'.symm
          · rw [List.map_cons, List.flatten_cons, i3, hdec]; rfl
        by_cases h1 : isPrefix "amp;".toList s = true
        · exact branch ['a', 'm', 'p', ';'] 4 tAmp '&' rfl h1 .amp rfl (by decide)
            (by simp only [tokAux, ↓reduceIte, h1]) (by simp only [vttDecode, vttDecodeAux, ↓reduceIte, h1])
        · have h1' : isPrefix "amp;".toList s = false := by simpa using h1
          by_cases h2 : isPrefix "lt;".toList s = true
          · exact branch ['l', 't', ';'] 3 tLt '<' rfl h2 .lt rfl (by decide)
              (by simp only [tokAux, ↓reduceIte, h1', h2, Bool.false_eq_true])
              (by simp only [vttDecode, vttDecodeAux, ↓reduceIte, h1', h2, Bool.false_eq_true])
          · have h2' : isPrefix "lt;".toList s = false := by simpa using h2
            have h3 : isPrefix "gt;".toList s = true := by
              rcases hent with h | h | h
              · exact absurd h h1
              · exact absurd h h2
              · exact h
            exact branch ['g', 't', ';'] 3 tGt '>' rfl h3 .gt rfl (by decide)
              (by simp only [tokAux, ↓reduceIte, h1', h2', h3, Bool.false_eq_true])
              (by simp only [vttDecode, vttDecodeAux, ↓reduceIte, h1', h2', h3, Bool.false_eq_true])
      · obtain ⟨i1, i2, i3⟩ := ih s hl hok.2
        have e1 : tokAux 0 (c :: s) = [c] :: tokAux 0 s := by simp [tokAux, hc]
        have hd : decTok [c] = [c] := by
          have a1 : ([c] : Str) ≠ tAmp := by simp
          have a2 : ([c] : Str) ≠ tLt := by simp
          have a3 : ([c] : Str) ≠ tGt := by simp
          simp [decTok, a1, a2, a3]
        rw [e1, vttDecode_cons_ne c s hc]
        refine ⟨?_, ?_, ?_⟩
        · intro t ht
          rcases List.mem_cons.mp ht with rfl | ht
          · exact .ch c hc
          · exact i1 t ht
        · simp [i2]
        · rw [List.map_cons, List.flatten_cons, i3, hd]; rfl

/-- on escaped text the reader's chain of `replace` passes is the single-pass decoder -/
theorem passes_eq_decode (xl xr xn : Str) (s : Str) (h : AmpOK s) : entityPasses xl xr xn s = vttDecode s := by
  obtain ⟨g, f, d⟩ := tok_spec s.length s (Nat.le_refl _) h
  conv => lhs; rw [← f]
  rw [passes_tokens xl xr xn _ g, d]

/-! ### the writer's escaped text is of that shape -/

theorem AmpOK_append (a b : Str) (ha : ∀ c ∈ a, c ≠ '&') (hb : AmpOK b) : AmpOK (a ++ b) := by
  induction a with
  | nil => exact hb
  | cons x xs ih =>
    have hx : x ≠ '&' := ha x (by simp)
    exact ⟨fun e => absurd e hx, ih (fun c hc => ha c (by simp [hc]))⟩

theorem AmpOK_e2 (t : Str) : AmpOK (t.flatMap e2) := by
  induction t with
  | nil => trivial
  | cons c t ih =>
    simp only [List.flatMap_cons]
    by_cases ha : c = '&'
    · subst ha
      rw [e2_amp]
      exact ⟨fun _ => Or.inl (isPrefix_append _ _), AmpOK_append "amp;".toList _ (by decide) ih⟩
    · by_cases hl : c = '<'
      · subst hl
        rw [e2_lt]
        exact ⟨fun _ => Or.inr (Or.inl (isPrefix_append _ _)), AmpOK_append "lt;".toList _ (by decide) ih⟩
      · rw [e2_other c ha hl]
        exact ⟨fun e => absurd e ha, ih⟩

theorem AmpOK_R (n : Nat) : ∀ s : Str, s.length ≤ n → AmpOK s → AmpOK (replaceAux arrowOld arrowNew 0 s) := by
  induction n with
  | zero =>
    intro s hs _
    have : s = [] := List.eq_nil_of_length_eq_zero (Nat.le_zero.mp hs)
    subst this; trivial
  | succ n ih =>
    intro s hs hok
    cases s with
    | nil => trivial
    | cons c s =>
      have hl : s.length ≤ n := by simpa using hs
      by_cases hm : isPrefix arrowOld (c :: s) = true
      · obtain ⟨hc, r, hr⟩ := (isPrefix_arrow_iff _ _).1 hm
        subst hc; subst hr
        have e := R_cons_match r
        unfold R at e
        rw [e]
        have hr : AmpOK r := hok.2.2.2
        have ihr := ih r (by simp at hl; omega) hr
        show AmpOK ('-' :: '-' :: '&' :: 'g' :: 't' :: ';' :: replaceAux arrowOld arrowNew 0 r)
        have ne : ∀ {x : Char} {P : Prop}, x ≠ '&' → (x = '&' → P) := fun h e => absurd e h
        refine ⟨ne (by decide), ne (by decide), fun _ => Or.inr (Or.inr ?_), ne (by decide), ne (by decide), ne (by decide), ihr⟩
        exact isPrefix_append "gt;".toList _
      · have e := R_cons_nomatch c s hm
        unfold R at e
        rw [e]
        refine ⟨?_, ih s hl hok.2⟩
        intro hc
        have q1 : ∀ x ∈ "amp;".toList, x ≠ '-' := by decide
        have q2 : ∀ x ∈ "lt;".toList, x ≠ '-' := by decide
        have q3 : ∀ x ∈ "gt;".toList, x ≠ '-' := by decide
        have h1 := isPrefix_R _ q1 s
        have h2 := isPrefix_R _ q2 s
        have h3 := isPrefix_R _ q3 s
        unfold R at h1 h2 h3
        rw [h1, h2, h3]
        exact hok.1 hc

theorem AmpOK_vttEncode (t : Str) : AmpOK (vttEncode t) := by
  rw [vttEncode_eq, encode_amp_lt]
  have h1 : "-->".toList = arrowOld := by decide
  have h2 : "--&gt;".toList = arrowNew := by decide
  rw [h1, h2]
  exact AmpOK_R _ _ (Nat.le_refl _) (AmpOK_e2 t)

/-- **the reader's entity passes undo the writer's escaping**, for every string -/
theorem entityPasses_vttEncode (xl xr xn : Str) (t : Str) : entityPasses xl xr xn (vttEncode t) = t := by
  rw [passes_eq_decode _ _ _ _ (AmpOK_vttEncode t), vttDecode_vttEncode]

/-! ### `WebVTTReader._decode` on escaped text -/

theorem subVoice_no_lt (n : Nat) (s : Str) (h : '<' ∉ s) : Vtt.subVoice n s = s := by
  induction s generalizing n with
  | nil => cases n <;> rfl
  | cons c s ih =>
    cases n with
    | zero => rfl
    | succ n =>
      have hc : c ≠ '<' := fun e => h (by simp [e])
      have hm : Vtt.matchVoiceAt (c :: s) = none := by
        unfold Vtt.matchVoiceAt
        split
        · rename_i heq; simp at heq; exact absurd heq.1 hc
        · rfl
      simp only [Vtt.subVoice, hm]
      rw [ih n (fun e => h (by simp [e]))]

theorem subOther_no_lt (n : Nat) (s : Str) (h : '<' ∉ s) : Vtt.subOther n s = s := by
  induction s generalizing n with
  | nil => cases n <;> rfl
  | cons c s ih =>
    cases n with
    | zero => rfl
    | succ n =>
      have hc : c ≠ '<' := fun e => h (by simp [e])
      have hm : Vtt.matchOtherAt (c :: s) = none := by
        unfold Vtt.matchOtherAt
        split
        · rename_i heq; simp at heq; exact absurd heq.1 hc
        · rfl
      simp only [Vtt.subOther, hm]
      rw [ih n (fun e => h (by simp [e]))]

/-- the entity part of `_decode` is `entityPasses` (with whatever the three other references are replaced by) -/
theorem decode_eq (s : Str) (hs : strip s = s) (hlt : '<' ∉ s) :
    ∃ xl xr xn, Vtt.decode s = entityPasses xl xr xn s := by
  refine ⟨[Char.ofNat 0x200e], [Char.ofNat 0x200f], [Char.ofNat 0xa0], ?_⟩
  unfold Vtt.decode entityPasses
  simp only [hs, subVoice_no_lt _ _ hlt, subOther_no_lt _ _ hlt]
  have e1 : "&lt;".toList = tLt := by decide
  have e2 : "&gt;".toList = tGt := by decide
  have e3 : "&lrm;".toList = pLrm := by decide
  have e4 : "&rlm;".toList = pRlm := by decide
  have e5 : "&nbsp;".toList = pNbsp := by decide
  have e6 : "&amp;".toList = tAmp := by decide
  have e7 : "<".toList = ['<'] := by decide
  have e8 : ">".toList = ['>'] := by decide
  have e9 : "&".toList = ['&'] := by decide
  rw [e1, e2, e3, e4, e5, e6, e7, e8, e9]

/-- **read text = written text (WebVTT, one line).** whatever the line, the reader's `_decode` of the writer's escaped
    form gives the line back, provided the escaped form has no white space at its ends (the reader strips lines) -/
theorem decode_vttEncode (t : Str) (hs : strip (vttEncode t) = vttEncode t) : Vtt.decode (vttEncode t) = t := by
  obtain ⟨xl, xr, xn, h⟩ := decode_eq (vttEncode t) hs (vttEncode_no_lt t)
  rw [h, entityPasses_vttEncode]

/-! ### no white space at the ends -/

theorem gl_append_ne {α : Type} (a b : List α) (hb : b ≠ []) : (a ++ b).getLast? = b.getLast? := by
  rw [List.getLast?_append]
  cases b with
  | nil => exact absurd rfl hb
  | cons x xs => rw [List.getLast?_cons]; rfl

theorem head_append_ne {α : Type} (a b : List α) (ha : a ≠ []) : (a ++ b).head? = a.head? := by
  cases a with
  | nil => exact absurd rfl ha
  | cons x xs => rfl

/-- the first and the last character (if any) are not white space -/
def NoEdgeSpace (t : Str) : Prop :=
  (∀ c, t.head? = some c → isSpace c = false) ∧ (∀ d, t.getLast? = some d → isSpace d = false)

theorem strip_of_noEdgeSpace (t : Str) (h : NoEdgeSpace t) : strip t = t := by
  cases t with
  | nil => rfl
  | cons c t' =>
    have hc : isSpace c = false := h.1 c rfl
    by_cases ht : t' = []
    · subst ht
      simp [strip, stripBy, rstripBy, lstripBy, hc]
    · have hd : isSpace (t'.getLast ht) = false := by
        apply h.2
        rw [List.getLast?_cons_of_ne_nil ht]; exact List.getLast?_eq_some_getLast ht
      have e : c :: t' = [] ++ c :: (t'.dropLast ++ (t'.getLast ht) :: []) := by
        simp [List.dropLast_concat_getLast ht]
      unfold strip
      rw [e, stripBy_keep isSpace [] [] _ c _ (by simp) (by simp) hc hd]
      rfl

theorem lastNS_R (n : Nat) : ∀ s : Str, s.length ≤ n → (∀ d, s.getLast? = some d → isSpace d = false) →
    ∀ d, (R s).getLast? = some d → isSpace d = false := by
  induction n with
  | zero =>
    intro s hs _ d hd
    have : s = [] := List.eq_nil_of_length_eq_zero (Nat.le_zero.mp hs)
    subst this; simp [R, replaceAux] at hd
  | succ n ih =>
    intro s hs hlast d hd
    cases s with
    | nil => simp [R, replaceAux] at hd
    | cons c s =>
      have hl : s.length ≤ n := by simpa using hs
      have hsub : ∀ r : Str, (∃ pre, c :: s = pre ++ r) → r ≠ [] → ∀ d, r.getLast? = some d → isSpace d = false := by
        intro r ⟨pre, hp⟩ hr d hd
        apply hlast
        rw [hp, gl_append_ne _ _ hr]; exact hd
      by_cases hm : isPrefix arrowOld (c :: s) = true
      · obtain ⟨hc, r, hr⟩ := (isPrefix_arrow_iff _ _).1 hm
        subst hc; subst hr
        rw [R_cons_match] at hd
        by_cases hR : R r = []
        · rw [hR] at hd; simp [arrowNew] at hd; subst hd; decide
        · rw [gl_append_ne _ _ hR] at hd
          have hrne : r ≠ [] := by intro e; subst e; exact hR rfl
          exact ih r (by simp at hl; omega) (hsub r ⟨['-', '-', '>'], rfl⟩ hrne) d hd
      · rw [R_cons_nomatch c s hm] at hd
        by_cases hR : R s = []
        · rw [hR] at hd
          have hs0 : s = [] := by
            cases s with
            | nil => rfl
            | cons x xs =>
              have := R_head (x :: xs); rw [hR] at this; simp at this
          subst hs0
          simp at hd; subst hd
          exact hlast c rfl
        · have hsne : s ≠ [] := by intro e; subst e; exact hR rfl
          rw [show c :: R s = [c] ++ R s from rfl, gl_append_ne _ _ hR] at hd
          exact ih s hl (hsub s ⟨[c], rfl⟩ hsne) d hd

theorem e2_ne_nil (c : Char) : e2 c ≠ [] := by
  unfold e2; split
  · decide
  · split
    · decide
    · simp

theorem e2_edges (c : Char) (h : isSpace c = false) :
    (∀ x, (e2 c).head? = some x → isSpace x = false) ∧ (∀ x, (e2 c).getLast? = some x → isSpace x = false) := by
  by_cases ha : c = '&'
  · subst ha; rw [e2_amp]; constructor <;> (intro x hx; simp at hx; subst hx; decide)
  · by_cases hl : c = '<'
    · subst hl; rw [e2_lt]; constructor <;> (intro x hx; simp at hx; subst hx; decide)
    · rw [e2_other c ha hl]; constructor <;> (intro x hx; simp at hx; subst hx; exact h)

/-- the escaped form of a line without white space at its ends has none either -/
theorem noEdgeSpace_vttEncode (t : Str) (h : NoEdgeSpace t) : NoEdgeSpace (vttEncode t) := by
  rw [vttEncode_eq, encode_amp_lt]
  have h1 : "-->".toList = arrowOld := by decide
  have h2 : "--&gt;".toList = arrowNew := by decide
  rw [h1, h2]
  show NoEdgeSpace (R (t.flatMap e2))
  constructor
  · intro c hc
    rw [R_head] at hc
    cases t with
    | nil => simp at hc
    | cons x xs =>
      have hx : isSpace x = false := h.1 x rfl
      simp only [List.flatMap_cons] at hc
      rw [head_append_ne _ _ (e2_ne_nil x)] at hc
      exact (e2_edges x hx).1 c hc
  · apply lastNS_R _ _ (Nat.le_refl _)
    intro d hd
    by_cases ht : t = []
    · subst ht; simp at hd
    · have e : t = t.dropLast ++ [t.getLast ht] := (List.dropLast_concat_getLast ht).symm
      have hx : isSpace (t.getLast ht) = false := h.2 _ (List.getLast?_eq_some_getLast ht)
      rw [e, List.flatMap_append] at hd
      simp only [List.flatMap_cons, List.flatMap_nil, List.append_nil] at hd
      rw [gl_append_ne _ _ (e2_ne_nil _)] at hd
      exact (e2_edges _ hx).2 d hd

/-- **read text = written text (WebVTT lines).** for every line whose first and last characters are not white space
    (and for the empty line), the reader's `_decode` of the writer's escaped form is the line itself -/
theorem decode_vttEncode_line (t : Str) (h : NoEdgeSpace t) : Vtt.decode (vttEncode t) = t :=
  decode_vttEncode t (strip_of_noEdgeSpace _ (noEdgeSpace_vttEncode t h))

end PcVerif.Spec
