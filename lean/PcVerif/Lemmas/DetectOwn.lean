/-
  C20, third clause, for the three writers whose models are whole-document models: what the SRT, WebVTT and MicroDVD
  writers produce from text without another format's marker is detected as that writer's format.
-/
import PcVerif.Lemmas.DetectLemmas
import PcVerif.Lemmas.SrtRoundTrip
import PcVerif.Lemmas.VttRoundTrip
import PcVerif.Lemmas.MicroDvdRoundTrip
namespace PcVerif.Detect
open Str

/-- the alphabet of index and timing lines: ASCII digits and the punctuation of stamps and arrows -/
def Plain (s : Str) : Prop := ∀ c ∈ s, isAsciiDigit c = true ∨ c ∈ [':', ',', '.', ' ', '-', '>', '{', '}', '|']

theorem plain_caseless (s : Str) (h : Plain s) : ∀ c ∈ s, Caseless c := by
  intro c hc
  rcases h c hc with hd | hp
  · have hb : '0' ≤ c ∧ c ≤ '9' := by simpa [isAsciiDigit] using hd
    have h1 : 48 ≤ c.toNat := hb.1
    have h2 : c.toNat ≤ 57 := hb.2
    unfold Caseless; omega
  · simp only [List.mem_cons, List.not_mem_nil, or_false] at hp
    rcases hp with rfl | rfl | rfl | rfl | rfl | rfl | rfl | rfl | rfl <;> (unfold Caseless; decide)

theorem plain_not_mem (s : Str) (h : Plain s) (c : Char) (hd : isAsciiDigit c = false)
    (hp : c ∉ [':', ',', '.', ' ', '-', '>', '{', '}', '|']) : c ∉ s := by
  intro hc
  rcases h c hc with h1 | h1
  · rw [hd] at h1; exact absurd h1 (by decide)
  · exact hp h1

theorem plain_digits (s : Str) (h : Digits s) : Plain s :=
  fun c hc => Or.inl (allAsciiDigits_mem s h.2 c hc)

theorem plain_append {a b : Str} (ha : Plain a) (hb : Plain b) : Plain (a ++ b) := by
  intro c hc
  rcases List.mem_append.mp hc with h | h
  · exact ha c h
  · exact hb c h

theorem plain_lit (s : Str) (h : s.all (fun c => isAsciiDigit c || [':', ',', '.', ' ', '-', '>', '{', '}', '|'].contains c) = true) :
    Plain s := by
  intro c hc
  have := List.all_eq_true.mp h c hc
  simp only [Bool.or_eq_true, List.contains_iff_mem] at this
  simpa using this

/-- text that carries no marker of another format (the DFXP and SAMI detectors look at the lower-cased document) -/
def NoMarker (t : Str) : Prop :=
  contains dfxpMarker (lower t) = false ∧ contains webvttMarker t = false ∧ contains samiMarker (lower t) = false

theorem markers : dfxpMarker = "</tt>".toList ∧ samiMarker = "<sami".toList ∧ webvttMarker = "WEBVTT".toList ∧
    srtArrow = "-->".toList ∧ Generated.dfxpLowers = true ∧ Generated.samiLowers = true := by decide

/-- a document of lines, each plain or free of markers, is rejected by the DFXP, WebVTT and SAMI detectors -/
theorem lines_reject (ls : List Str) (h : ∀ l ∈ ls, Plain l ∨ NoMarker l) :
    detectDfxp (ls.flatMap (· ++ ['\n'])) = false ∧ detectWebvtt (ls.flatMap (· ++ ['\n'])) = false ∧
    detectSami (ls.flatMap (· ++ ['\n'])) = false := by
  obtain ⟨m1, m2, m3, _, l1, l2⟩ := markers
  refine ⟨?_, ?_, ?_⟩
  · unfold detectDfxp
    rw [l1, if_pos rfl, lower_lines]
    cases hc : contains dfxpMarker ((ls.map lower).flatMap (· ++ ['\n'])) with
    | false => rfl
    | true =>
      obtain ⟨l', hl', hcl⟩ := contains_lines dfxpMarker (by rw [m1]; decide) (by rw [m1]; decide) _ hc
      obtain ⟨l, hl, rfl⟩ := List.mem_map.mp hl'
      rcases h l hl with hp | hn
      · rw [lower_caseless l (plain_caseless l hp)] at hcl
        have := not_contains_of_not_mem dfxpMarker l '<' (by rw [m1]; decide) (plain_not_mem l hp '<' (by decide) (by decide))
        rw [this] at hcl; exact absurd hcl (by decide)
      · rw [hn.1] at hcl; exact absurd hcl (by decide)
  · unfold detectWebvtt
    cases hc : contains webvttMarker (ls.flatMap (· ++ ['\n'])) with
    | false => rfl
    | true =>
      obtain ⟨l, hl, hcl⟩ := contains_lines webvttMarker (by rw [m3]; decide) (by rw [m3]; decide) _ hc
      rcases h l hl with hp | hn
      · have := not_contains_of_not_mem webvttMarker l 'W' (by rw [m3]; decide) (plain_not_mem l hp 'W' (by decide) (by decide))
        rw [this] at hcl; exact absurd hcl (by decide)
      · rw [hn.2.1] at hcl; exact absurd hcl (by decide)
  · unfold detectSami
    rw [l2, if_pos rfl, lower_lines]
    cases hc : contains samiMarker ((ls.map lower).flatMap (· ++ ['\n'])) with
    | false => rfl
    | true =>
      obtain ⟨l', hl', hcl⟩ := contains_lines samiMarker (by rw [m2]; decide) (by rw [m2]; decide) _ hc
      obtain ⟨l, hl, rfl⟩ := List.mem_map.mp hl'
      rcases h l hl with hp | hn
      · rw [lower_caseless l (plain_caseless l hp)] at hcl
        have := not_contains_of_not_mem samiMarker l '<' (by rw [m2]; decide) (plain_not_mem l hp '<' (by decide) (by decide))
        rw [this] at hcl; exact absurd hcl (by decide)
      · rw [hn.2.2] at hcl; exact absurd hcl (by decide)

theorem order_eq : Detect.order = [.dfxp, .microdvd, .webvtt, .sami, .srt, .scc] := by decide

/-! ### SRT -/

open PcVerif.Props.C01 in
theorem plain_stamp (t : Rat) : Plain (Srt.stampOf t) := by
  obtain ⟨h, m, sec, f, e, d1, d2, d3, d4, _⟩ := Srt.written_stamp t
  unfold Srt.stampOf; rw [e]; unfold srtStamp
  have c1 : Plain [':'] := plain_lit _ (by decide)
  have c2 : Plain [','] := plain_lit _ (by decide)
  have := plain_append (plain_append (plain_append (plain_append (plain_append (plain_append (plain_digits h d1) c1)
    (plain_digits m d2)) c1) (plain_digits sec d3)) c2) (plain_digits f d4)
  simpa using this

theorem plain_timing (k : Nat) (c : RCap) : Plain (Srt.blockOf k c).timing := by
  unfold Srt.Block.timing Srt.blockOf
  exact plain_append (plain_append (plain_stamp _) (plain_lit _ (by decide))) (plain_stamp _)

theorem arrow_in_timing (B : Srt.Block) : contains srtArrow B.timing = true := by
  unfold Srt.Block.timing
  rw [List.append_assoc]
  apply contains_of_isPrefix_tail
  apply contains_append_right
  rw [markers.2.2.2.1]
  decide

/-- **C20 (own output, SRT).** whatever the SRT writer produces for one language — any number of cues with visible text,
    any instants — from text lines free of the other formats' markers is detected as SRT -/
theorem detect_own_srt (capsIn : List RCap)
    (hne : Srt.mergeSame [] capsIn ≠ [])
    (hv : ∀ c ∈ Srt.mergeSame [] capsIn, Srt.textsOf c.nodes ≠ [])
    (hbr : ∀ c ∈ Srt.mergeSame [] capsIn, ∀ t ∈ Srt.textsOf c.nodes, Srt.NoBreak t)
    (hmk : ∀ c ∈ Srt.mergeSame [] capsIn, ∀ t ∈ Srt.textsOf c.nodes, NoMarker t) :
    detectFormat (Srt.write [capsIn]) = .ok (some .srt) := by
  have hw : Srt.write [capsIn] = (Srt.recreateCaptions 1 (Srt.mergeSame [] capsIn)).dropLast := by
    simp [Srt.write, Srt.recreateLang, join]
  rw [hw, Srt.recreateLang_doc _ hne hv]
  generalize hm : Srt.mergeSame [] capsIn = merged at *
  -- the lines
  have hkind : ∀ l ∈ Srt.docLines (Srt.blocksFrom 1 merged), Plain l ∨ (NoMarker l ∧ Srt.NoBreak l) := by
    intro l hl
    rcases Srt.mem_docLines _ l hl with rfl | ⟨B, hB, hl⟩
    · exact Or.inl (fun c hc => by simp at hc)
    · obtain ⟨c, hc, k, rfl⟩ := Srt.mem_blocksFrom _ _ B hB
      rcases hl with rfl | rfl | hl
      · exact Or.inl (plain_digits _ (Srt.digits_ofNat k))
      · exact Or.inl (plain_timing k c)
      · exact Or.inr ⟨hmk c hc l hl, hbr c hc l hl⟩
  have hnb : ∀ l ∈ Srt.docLines (Srt.blocksFrom 1 merged), Srt.NoBreak l := by
    intro l hl
    rcases hkind l hl with hp | hn
    · intro ch hch
      rcases hp ch hch with hd | hp
      · exact Srt.asciiDigit_noBreak ch hd
      · simp only [List.mem_cons, List.not_mem_nil, or_false] at hp
        rcases hp with rfl | rfl | rfl | rfl | rfl | rfl | rfl | rfl | rfl <;> decide
    · exact hn.2
  obtain ⟨r1, r2, r3⟩ := lines_reject (Srt.docLines (Srt.blocksFrom 1 merged))
    (fun l hl => (hkind l hl).imp id (·.1))
  -- first two lines
  obtain ⟨c0, cs, rfl⟩ : ∃ c0 cs, merged = c0 :: cs := by
    cases merged with
    | nil => exact absurd rfl hne
    | cons a b => exact ⟨a, b, rfl⟩
  have hlines : ∃ tl, Srt.docLines (Srt.blocksFrom 1 (c0 :: cs)) = ofNat 1 :: (Srt.blockOf 1 c0).timing :: tl := by
    cases cs with
    | nil => exact ⟨_, rfl⟩
    | cons a b => exact ⟨_, rfl⟩
  obtain ⟨tl, htl⟩ := hlines
  have hsplit := Srt.splitlines_terminated _ hnb
  have hmd : detectMicrodvd ((Srt.docLines (Srt.blocksFrom 1 (c0 :: cs))).flatMap (· ++ ['\n'])) = false := by
    rw [htl]
    have : ofNat 1 = ['1'] := by decide
    simp [this, detectMicrodvd, matchBraceNum]
  have hsrt : detectSrt ((Srt.docLines (Srt.blocksFrom 1 (c0 :: cs))).flatMap (· ++ ['\n'])) = .ok true := by
    unfold detectSrt
    rw [hsplit, htl]
    have : isDigitStr (ofNat 1) = true := by decide
    simp [this, arrow_in_timing]
  have hne' : ((Srt.docLines (Srt.blocksFrom 1 (c0 :: cs))).flatMap (· ++ ['\n'])).isEmpty = false := by
    rw [htl]; simp
  unfold detectFormat
  rw [hne', order_eq]
  simp [firstAccepting, detectOne, r1, r2, r3, hmd, hsrt]

/-! ### WebVTT -/

theorem plain_vtt_stamp (t : Rat) : Plain (Fmt.vttTimestamp t) := by
  unfold Fmt.vttTimestamp
  generalize Fmt.wholeMicro t = us
  have r1 : us / 1000000 % 86400 / 60 % 60 < 100 := by omega
  have r2 : us / 1000000 % 86400 % 60 < 100 := by omega
  have r3 : us % 1000000 / 1000 < 1000 := by omega
  have r4 : us / 1000000 % 86400 / 60 / 60 < 100 := by omega
  obtain ⟨d1, _, _⟩ := Srt.pad2_digits _ r1
  obtain ⟨d2, _, _⟩ := Srt.pad2_digits _ r2
  obtain ⟨d3, _, _⟩ := Srt.pad3_digits _ r3
  obtain ⟨d4, _, _⟩ := Srt.pad2_digits _ r4
  have c1 : Plain [':'] := plain_lit _ (by decide)
  have c2 : Plain ['.'] := plain_lit _ (by decide)
  have base := plain_append (plain_append (plain_append (plain_append (plain_digits _ d1) c1) (plain_digits _ d2)) c2)
    (plain_digits _ d3)
  simp only
  split
  · simpa using base
  · have := plain_append (plain_append (plain_digits _ d4) c1) base
    simpa using this

/-- **C20 (own output, WebVTT).** whatever the WebVTT writer produces for captions made of text lines — ANY text: since
    `<` is escaped, no marker of a reader earlier in the order can occur — is detected as WebVTT -/
theorem detect_own_vtt (cs : List VttW.CapIn) (hok : ∀ c ∈ cs, c.OK) :
    detectFormat (VttW.writePlain (cs.map VttW.toRCap)) = .ok (some .webvtt) := by
  rw [VttW.writePlain_doc cs hok]
  obtain ⟨m1, _, m3, _, l1, _⟩ := markers
  -- no `<` in any line, hence none in the document and no `</tt>` in its lower-cased form
  have hlt : ∀ l ∈ (["WEBVTT".toList, []] ++ Vtt.vdocLines (cs.map VttW.blockOf)), '<' ∉ l := by
    intro l hl
    rcases List.mem_append.mp hl with h | h
    · have key : ∀ y, y ∈ ["WEBVTT".toList, ([] : Str)] → '<' ∉ y := by decide
      exact key l h
    · rcases VttW.mem_vdocLines _ l h with rfl | ⟨B, hB, hl'⟩
      · simp
      · obtain ⟨c, hc, rfl⟩ := List.mem_map.mp hB
        rcases hl' with h1 | rfl | h1
        · simp [VttW.blockOf] at h1
        · have : Plain (VttW.blockOf c).timing :=
            plain_append (plain_append (plain_vtt_stamp c.1) (plain_lit _ (by decide))) (plain_vtt_stamp c.2.1)
          exact plain_not_mem _ this '<' (by decide) (by decide)
        · simp only [VttW.blockOf, List.mem_map] at h1
          obtain ⟨u, _, rfl⟩ := h1
          exact Spec.vttEncode_no_lt u
  have hdoc : ∀ rest : List Str, ((["WEBVTT".toList, []] ++ rest).flatMap (· ++ ['\n'])) =
      "WEBVTT".toList ++ ('\n' :: '\n' :: rest.flatMap (· ++ ['\n'])) := by intro rest; simp
  have hd : detectDfxp ((["WEBVTT".toList, []] ++ Vtt.vdocLines (cs.map VttW.blockOf)).flatMap (· ++ ['\n'])) = false := by
    unfold detectDfxp
    rw [l1, if_pos rfl]
    cases hc : contains dfxpMarker (lower ((["WEBVTT".toList, []] ++ Vtt.vdocLines (cs.map VttW.blockOf)).flatMap (· ++ ['\n']))) with
    | false => rfl
    | true =>
      exfalso
      have h1 := contains_mem dfxpMarker (by rw [m1]; decide) _ hc '<' (by rw [m1]; decide)
      have h2 := lt_of_mem_lower _ h1
      obtain ⟨l, hl, hcl⟩ := List.mem_flatMap.mp h2
      rcases List.mem_append.mp hcl with h | h
      · exact hlt l hl h
      · simp at h
  rw [hdoc] at hd ⊢
  have hm : detectMicrodvd ("WEBVTT".toList ++ ('\n' :: '\n' :: (Vtt.vdocLines (cs.map VttW.blockOf)).flatMap (· ++ ['\n']))) = false := by
    have : "WEBVTT".toList = ['W', 'E', 'B', 'V', 'T', 'T'] := by decide
    simp [this, detectMicrodvd, matchBraceNum]
  have hv : detectWebvtt ("WEBVTT".toList ++ ('\n' :: '\n' :: (Vtt.vdocLines (cs.map VttW.blockOf)).flatMap (· ++ ['\n']))) = true := by
    unfold detectWebvtt
    apply contains_append_right
    rw [m3]; decide
  have hne : ("WEBVTT".toList ++ ('\n' :: '\n' :: (Vtt.vdocLines (cs.map VttW.blockOf)).flatMap (· ++ ['\n']))).isEmpty = false := by
    have : "WEBVTT".toList = ['W', 'E', 'B', 'V', 'T', 'T'] := by decide
    simp [this]
  generalize ("WEBVTT".toList ++ ('\n' :: '\n' :: (Vtt.vdocLines (cs.map VttW.blockOf)).flatMap (· ++ ['\n']))) = d at hd hm hv hne
  unfold detectFormat
  rw [hne, order_eq]
  simp [firstAccepting, detectOne, hd, hm, hv]

/-! ### MicroDVD -/

theorem lstripBy_digits (a : Str) (r : Str) (ha : ∀ c ∈ a, isDecimal c = true) :
    lstripBy isDecimal (a ++ '}' :: r) = '}' :: r := by
  induction a with
  | nil => have : isDecimal '}' = false := by decide
           simp [lstripBy, this]
  | cons c a ih => simp [lstripBy, ha c (by simp), ih (fun x hx => ha x (by simp [hx]))]

theorem matchBraceNum_digits (a r : Str) (h : Digits a) : matchBraceNum ('{' :: (a ++ '}' :: r)) = some r := by
  obtain ⟨c, t, rfl, hc⟩ := Srt.digits_head a h
  have hd := h.allDecimal
  simp [matchBraceNum, dropDecimals1, hd c (by simp), lstripBy_digits t r (fun x hx => hd x (by simp [hx]))]

/-- **C20 (own output, MicroDVD).** whatever the MicroDVD writer produces for captions made of text lines without the
    DFXP marker (the only reader asked before MicroDVD's) is detected as MicroDVD -/
theorem detect_own_mdvd (cs : List VttW.CapIn) (hne : cs ≠ []) (hok : ∀ c ∈ cs, MicroDvd.CapOK c)
    (hmk : ∀ c ∈ cs, ∀ t ∈ c.2.2, contains dfxpMarker (lower t) = false) :
    detectFormat (MicroDvd.write [cs.map VttW.toRCap]) = .ok (some .microdvd) := by
  obtain ⟨m1, _, _, _, l1, _⟩ := markers
  have hw : MicroDvd.write [cs.map VttW.toRCap] = ((cs.map MicroDvd.mline).map MicroDvd.MLine.line).flatMap (· ++ ['\n']) := by
    simp only [MicroDvd.write, List.map_cons, List.map_nil, List.flatten_cons, List.flatten_nil, List.append_nil]
    rw [MicroDvd.recreateLang_lines cs hok]
    simp only [List.flatMap, List.map_map]
    rfl
  rw [hw]
  have hbar : lower ['|'] = ['|'] := lower_caseless_char '|' (by unfold Caseless; decide)
  have hd : detectDfxp (((cs.map MicroDvd.mline).map MicroDvd.MLine.line).flatMap (· ++ ['\n'])) = false := by
    unfold detectDfxp
    rw [l1, if_pos rfl, lower_lines]
    cases hc : contains dfxpMarker ((((cs.map MicroDvd.mline).map MicroDvd.MLine.line).map lower).flatMap (· ++ ['\n'])) with
    | false => rfl
    | true =>
      exfalso
      obtain ⟨l', hl', hcl⟩ := contains_lines dfxpMarker (by rw [m1]; decide) (by rw [m1]; decide) _ hc
      simp only [List.map_map, List.mem_map, Function.comp] at hl'
      obtain ⟨c, hcm, rfl⟩ := hl'
      have hpre : Plain ('{' :: (MicroDvd.mline c).a ++ '}' :: '{' :: (MicroDvd.mline c).b ++ ['}']) := by
        have b1 : Plain ['{'] := plain_lit _ (by decide)
        have b2 : Plain ['}', '{'] := plain_lit _ (by decide)
        have b3 : Plain ['}'] := plain_lit _ (by decide)
        have := plain_append (plain_append (plain_append (plain_append b1 (plain_digits _ (Srt.digits_ofNat (Fmt.microToFrames c.1)))) b2)
          (plain_digits _ (Srt.digits_ofNat (Fmt.microToFrames c.2.1)))) b3
        simpa [MicroDvd.mline] using this
      have hline : (MicroDvd.mline c).line = ('{' :: (MicroDvd.mline c).a ++ '}' :: '{' :: (MicroDvd.mline c).b ++ ['}']) ++
          join ['|'] (MicroDvd.mline c).texts := by simp [MicroDvd.MLine.line]
      rw [hline, lower_append, lower_caseless _ (plain_caseless _ hpre), lower_join '|' hbar, m1] at hcl
      have h2 := contains_skip_prefix '<' "/tt>".toList _ _ (plain_not_mem _ hpre '<' (by decide) (by decide)) hcl
      obtain ⟨t', ht', hct⟩ := contains_join '|' ('<' :: "/tt>".toList) (by decide) (by decide) _ h2
      obtain ⟨t, ht, rfl⟩ := List.mem_map.mp ht'
      have := hmk c hcm t ht
      rw [m1] at this
      have e : ('<' :: "/tt>".toList) = "</tt>".toList := by decide
      rw [e, this] at hct
      exact absurd hct (by decide)
  obtain ⟨c0, rest, rfl⟩ : ∃ c0 rest, cs = c0 :: rest := by
    cases cs with
    | nil => exact absurd rfl hne
    | cons a b => exact ⟨a, b, rfl⟩
  have hm : detectMicrodvd ((((c0 :: rest).map MicroDvd.mline).map MicroDvd.MLine.line).flatMap (· ++ ['\n'])) = true := by
    simp only [List.map_cons, List.flatMap_cons, MicroDvd.MLine.line, MicroDvd.mline, List.cons_append, List.append_assoc]
    unfold detectMicrodvd
    rw [matchBraceNum_digits _ _ (Srt.digits_ofNat _)]
    simp only
    rw [matchBraceNum_digits _ _ (Srt.digits_ofNat _)]
    rfl
  have hne' : ((((c0 :: rest).map MicroDvd.mline).map MicroDvd.MLine.line).flatMap (· ++ ['\n'])).isEmpty = false := by
    simp [MicroDvd.MLine.line]
  generalize ((((c0 :: rest).map MicroDvd.mline).map MicroDvd.MLine.line).flatMap (· ++ ['\n'])) = d at hd hm hne'
  unfold detectFormat
  rw [hne', order_eq]
  simp [firstAccepting, detectOne, hd, hm]

end PcVerif.Detect
