import PcVerif.Util.Str
namespace PcVerif.Str

theorem splitlinesAux_false_ne_nil (cur s : Str) (h : cur ≠ []) :
    splitlinesAux false cur s ≠ [] := by
  induction s generalizing cur with
  | nil => cases cur with
    | nil => exact absurd rfl h
    | cons c cs => simp [splitlinesAux]
  | cons c s ih =>
    unfold splitlinesAux
    simp only [Bool.false_and, Bool.false_eq_true, if_false]
    split
    · simp
    · split
      · simp
      · exact ih _ (by simp)

/-- every non-empty Python string has at least one line -/
theorem splitlines_ne_nil (s : Str) (h : s ≠ []) : splitlines s ≠ [] := by
  cases s with
  | nil => exact absurd rfl h
  | cons c s =>
    unfold splitlines splitlinesAux
    simp only [Bool.false_and, Bool.false_eq_true, if_false]
    split
    · simp
    · split
      · simp
      · exact splitlinesAux_false_ne_nil _ _ (by simp)

end PcVerif.Str

namespace PcVerif.Str

theorem splitChar_ne_nil (d : Char) (s : Str) : splitChar d s ≠ [] := by
  cases s with
  | nil => simp [splitChar]
  | cons c s =>
    unfold splitChar
    split
    · simp
    · split <;> simp

theorem splitChar_no_sep (d : Char) (a : Str) (h : d ∉ a) : splitChar d a = [a] := by
  induction a with
  | nil => simp [splitChar]
  | cons c a ih =>
    have hc : c ≠ d := fun e => h (by simp [e])
    have ha : d ∉ a := fun e => h (List.mem_cons_of_mem _ e)
    simp [splitChar, hc, ih ha]

theorem splitChar_append_sep (d : Char) (a rest : Str) (h : d ∉ a) :
    splitChar d (a ++ d :: rest) = a :: splitChar d rest := by
  induction a with
  | nil => simp [splitChar]
  | cons c a ih =>
    have hc : c ≠ d := fun e => h (by simp [e])
    have ha : d ∉ a := fun e => h (List.mem_cons_of_mem _ e)
    simp [splitChar, hc, ih ha]

/-- a string of ASCII digits -/
def Digits (s : Str) : Prop := s ≠ [] ∧ allAsciiDigits s = true

theorem allAsciiDigits_mem (s : Str) (h : allAsciiDigits s = true) (c : Char) (hc : c ∈ s) : isAsciiDigit c = true := by
  induction s with
  | nil => simp at hc
  | cons x s ih =>
    simp only [allAsciiDigits, Bool.and_eq_true] at h
    simp only [List.mem_cons] at hc
    rcases hc with rfl | hc
    · exact h.1
    · exact ih h.2 hc

theorem Digits.not_mem {s : Str} (h : Digits s) (c : Char) (hc : isAsciiDigit c = false) : c ∉ s := by
  intro hm
  have := allAsciiDigits_mem s h.2 c hm
  simp [hc] at this

theorem Digits.parseNat {s : Str} (h : Digits s) : parseNat? s = some (natOfDigits s) := by
  simp [parseNat?, h.1, h.2]

end PcVerif.Str

namespace PcVerif.Str

theorem isDecimal_of_ascii (c : Char) (h : isAsciiDigit c = true) : isDecimal c = true := by
  have h1 : 48 ≤ c.toNat ∧ c.toNat ≤ 57 := by
    simp only [isAsciiDigit, Bool.and_eq_true, decide_eq_true_eq] at h
    exact ⟨by have := h.1; exact this, by have := h.2; exact this⟩
  unfold isDecimal inRanges Generated.decimalRanges
  simp only [List.any_cons, Bool.or_eq_true, Bool.and_eq_true, decide_eq_true_eq]
  exact Or.inl h1

theorem Digits.allDecimal {s : Str} (h : Digits s) : ∀ c ∈ s, isDecimal c = true :=
  fun c hc => isDecimal_of_ascii c (allAsciiDigits_mem s h.2 c hc)

end PcVerif.Str

namespace PcVerif.Str

theorem spanDecimals_spec (s : Str) : s = (spanDecimals s).1 ++ (spanDecimals s).2 ∧
    (∀ c ∈ (spanDecimals s).1, isDecimal c = true) := by
  induction s with
  | nil => simp [spanDecimals]
  | cons c s ih =>
    unfold spanDecimals
    split
    · rename_i h
      obtain ⟨e, hd⟩ := ih
      refine ⟨by simpa using e, ?_⟩
      intro x hx
      simp only [List.mem_cons] at hx
      rcases hx with rfl | hx
      · exact h
      · exact hd x hx
    · simp

theorem spanDecimals_append (a rest : Str) (ha : ∀ c ∈ a, isDecimal c = true)
    (hr : ∀ c r, rest = c :: r → isDecimal c = false) : spanDecimals (a ++ rest) = (a, rest) := by
  induction a with
  | nil =>
    cases rest with
    | nil => simp [spanDecimals]
    | cons c r => simp [spanDecimals, hr c r rfl]
  | cons x a ih =>
    have hx : isDecimal x = true := ha x (by simp)
    have := ih (fun c hc => ha c (List.mem_cons_of_mem _ hc))
    simp [spanDecimals, hx, this]

theorem dropPrefix?_spec (s p r : Str) (h : dropPrefix? s p = some r) : s = p ++ r := by
  induction p generalizing s with
  | nil => simp [dropPrefix?] at h; simp [h]
  | cons c p ih =>
    cases s with
    | nil => simp [dropPrefix?] at h
    | cons d s =>
      simp only [dropPrefix?] at h
      split at h
      · rename_i e; subst e; simp [ih s h]
      · simp at h

theorem dropPrefix?_append (p r : Str) : dropPrefix? (p ++ r) p = some r := by
  induction p with
  | nil => cases r <;> simp [dropPrefix?]
  | cons c p ih => simp [dropPrefix?, ih]

theorem takeDec_append (a rest : Str) (ha : ∀ c ∈ a, isDecimal c = true) :
    takeDec a.length (a ++ rest) = some (a, rest) := by
  induction a with
  | nil => simp [takeDec]
  | cons x a ih =>
    have hx : isDecimal x = true := ha x (by simp)
    have := ih (fun c hc => ha c (List.mem_cons_of_mem _ hc))
    simp [takeDec, hx, this]

end PcVerif.Str
