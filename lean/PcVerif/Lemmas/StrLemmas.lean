import PcVerif.Util.Str
namespace PcVerif.Str

theorem splitlinesAux_false_ne_nil (cur s : Str) (h : cur ≠ []) :
    splitlinesAux false cur s ≠ [] := by
  induction s generalizing cur with
  | nil => cases cur with
    | nil => exact absurd rfl h
    | cons c cs => simp [splitlinesAux]
  | cons c s ih =>
    unfold splitlinesAux
    simp only [Bool.false_and, Bool.false_eq_true, if_false]
    split
    · simp
    · split
      · simp
      · exact ih _ (by simp)

/-- every non-empty Python string has at least one line -/
theorem splitlines_ne_nil (s : Str) (h : s ≠ []) : splitlines s ≠ [] := by
  cases s with
  | nil => exact absurd rfl h
  | cons c s =>
    unfold splitlines splitlinesAux
    simp only [Bool.false_and, Bool.false_eq_true, if_false]
    split
    · simp
    · split
      · simp
      · exact splitlinesAux_false_ne_nil _ _ (by simp)

end PcVerif.Str
