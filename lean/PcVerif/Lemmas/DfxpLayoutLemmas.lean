/-
  C12: a layout printed as DFXP region attributes and read back from such a region (`Lemmas` for Props/C12).
-/
import PcVerif.Model.DfxpLayout
import PcVerif.Lemmas.GeoPrint
import PcVerif.Lemmas.SrtRoundTrip

namespace PcVerif.DfxpLayout
open Geo Str

theorem hundredths_avoid (c : Char) (hc : isAsciiDigit c = false) (hd : c ≠ '.') (n : Nat) : c ∉ hundredthsToStr n := by
  have hn := fun k => (Srt.digits_ofNat k).not_mem c hc
  unfold hundredthsToStr
  simp only
  split
  · exact hn _
  · split
    · simp [List.mem_append, hn, hd]
    · simp [List.mem_append, hn, hd]

theorem toStr_avoid (c : Char) (hc : isAsciiDigit c = false) (hd : c ≠ '.') (hm : c ≠ '-')
    (hu : ∀ u : Geo.Unit, c ∉ u.text) (s : Size) : c ∉ s.toStr := by
  have hh := hundredths_avoid c hc hd
  unfold Size.toStr
  simp only [List.mem_append, not_or]
  refine ⟨?_, hu _⟩
  split
  · split
    · exact hh _
    · simp [hh, hm]
  · exact hh _

theorem toStr_no_space (s : Size) : ' ' ∉ s.toStr :=
  toStr_avoid ' ' (by decide) (by decide) (by decide) (by intro u; cases u <;> decide) s

/-- a size rounded (half to even) to hundredths: what printing keeps of it -/
def roundSize (s : Size) : Size := ⟨mkRat (roundHalfEven (s.value * 100)) 100, s.unit⟩
def roundPoint (p : Point) : Point := ⟨roundSize p.x, roundSize p.y⟩
def roundStretch (p : Stretch) : Stretch := ⟨roundSize p.h, roundSize p.v⟩
def roundPadding (p : Padding) : Padding := ⟨roundSize p.before, roundSize p.after, roundSize p.start, roundSize p.end_⟩

theorem twoSizes_print (a b : Size) (ha : 0 ≤ a.value) (hb : 0 ≤ b.value) :
    twoSizes (a.toStr ++ ' ' :: b.toStr) = .ok (roundSize a, roundSize b) := by
  unfold twoSizes
  rw [splitChar_append_sep ' ' _ _ (toStr_no_space a), splitChar_no_sep ' ' _ (toStr_no_space b)]
  simp only [print_parse a ha, print_parse b hb]
  rfl

theorem point_print_parse (p : Point) (hx : 0 ≤ p.x.value) (hy : 0 ≤ p.y.value) :
    pointFromAttr p.toAttr = .ok (roundPoint p) := by
  unfold pointFromAttr Point.toAttr
  rw [twoSizes_print _ _ hx hy]
  rfl

theorem stretch_print_parse (p : Stretch) (hx : 0 ≤ p.h.value) (hy : 0 ≤ p.v.value) :
    stretchFromAttr p.toAttr = .ok (roundStretch p) := by
  unfold stretchFromAttr Stretch.toAttr
  rw [twoSizes_print _ _ hx hy]
  rfl

theorem padding_print_parse (p : Padding) (h1 : 0 ≤ p.before.value) (h2 : 0 ≤ p.after.value) (h3 : 0 ≤ p.start.value)
    (h4 : 0 ≤ p.end_.value) : Padding.fromAttr p.toAttr = .ok (roundPadding p) := by
  unfold Padding.fromAttr Padding.toAttr
  simp only [List.append_assoc, List.cons_append]
  rw [splitChar_append_sep ' ' _ _ (toStr_no_space _), splitChar_append_sep ' ' _ _ (toStr_no_space _),
    splitChar_append_sep ' ' _ _ (toStr_no_space _), splitChar_no_sep ' ' _ (toStr_no_space _)]
  simp only [mapM', print_parse _ h1, print_parse _ h2, print_parse _ h3, print_parse _ h4]
  rfl


/-- the alignment a reader ends up with when absent parts take the DFXP defaults -/
def effAlign (a : Option Alignment) : Alignment :=
  match a with
  | none => ⟨some .start, some .bottom⟩
  | some a => ⟨some (a.h.getD .start), some (a.v.getD .bottom)⟩

theorem default_alignment_is : defaultAlignment = ⟨some .start, some .bottom⟩ := by decide

theorem align_roundtrip (h : Option HAlign) (v : Option VAlign) :
    internalAlign (orDefault (alignAttrs (some ⟨h, v⟩)).1 (hAttr defaultAlignment.h))
      (orDefault (alignAttrs (some ⟨h, v⟩)).2 (vAttr defaultAlignment.v)) = some (effAlign (some ⟨h, v⟩)) := by
  cases h with
  | none => cases v with
    | none => decide
    | some v => cases v <;> decide
  | some h => cases v with
    | none => cases h <;> decide
    | some v => cases h <;> cases v <;> decide

def NonNegSize (s : Size) : Prop := 0 ≤ s.value
def NonNegLayout (l : Layout) : Prop :=
  (∀ p, l.origin = some p → 0 ≤ p.x.value ∧ 0 ≤ p.y.value) ∧ (∀ p, l.extent = some p → 0 ≤ p.h.value ∧ 0 ≤ p.v.value) ∧
  (∀ p, l.padding = some p → 0 ≤ p.before.value ∧ 0 ≤ p.after.value ∧ 0 ≤ p.start.value ∧ 0 ≤ p.end_.value)

/-- what a layout is after a trip through region attributes -/
def effective (lo : Option Layout) : Layout :=
  match lo with
  | none => ⟨none, none, none, some (effAlign none), none⟩
  | some l =>
    if !l.truthy then ⟨none, none, none, some (effAlign none), none⟩
    else ⟨l.origin.map roundPoint, l.extent.map roundStretch, l.padding.map roundPadding, some (effAlign l.alignment), none⟩

theorem toAttr_ne_auto (x y : Size) : ("auto".toList == x.toStr ++ ' ' :: y.toStr) = false := by
  have : "auto".toList ≠ x.toStr ++ ' ' :: y.toStr := by
    intro e
    have : ' ' ∈ "auto".toList := by rw [e]; simp
    exact absurd this (by decide)
  simpa using this

theorem read_default : readRegion ⟨none, none, none, (alignAttrs (some defaultAlignment)).1, (alignAttrs (some defaultAlignment)).2⟩
    = .ok (some ⟨none, none, none, some (effAlign none), none⟩) := by decide

theorem region_roundtrip (lo : Option Layout) (hnn : ∀ l, lo = some l → NonNegLayout l) :
    readRegion (layoutAttrs lo) = .ok (some (effective lo)) := by
  cases lo with
  | none => exact read_default
  | some l =>
    obtain ⟨ho, hx, hp⟩ := hnn l rfl
    unfold layoutAttrs effective
    simp only
    by_cases ht : l.truthy = true
    · simp only [ht, Bool.not_true, Bool.false_eq_true, if_false]
      have hal : internalAlign (orDefault (layoutAlignAttrs l.alignment).1 (hAttr defaultAlignment.h))
          (orDefault (layoutAlignAttrs l.alignment).2 (vAttr defaultAlignment.v)) = some (effAlign l.alignment) := by
        cases hla : l.alignment with
        | none => decide
        | some a => obtain ⟨h, v⟩ := a; exact align_roundtrip h v
      unfold readRegion
      simp only [hal]
      have e1 : attrObj (l.origin.map Point.toAttr) pointFromAttr ["auto".toList] = .ok (l.origin.map roundPoint) := by
        cases hlo : l.origin with
        | none => rfl
        | some p =>
          obtain ⟨h1, h2⟩ := ho p hlo
          simp only [Option.map, attrObj, List.contains_cons, List.contains_nil, Bool.or_false]
          unfold Point.toAttr
          rw [BEq.comm, toAttr_ne_auto]
          simp only [Bool.false_eq_true, if_false]
          have := point_print_parse p h1 h2
          unfold Point.toAttr at this
          rw [this]
      have e2 : attrObj (l.extent.map Stretch.toAttr) stretchFromAttr ["auto".toList] = .ok (l.extent.map roundStretch) := by
        cases hlo : l.extent with
        | none => rfl
        | some p =>
          obtain ⟨h1, h2⟩ := hx p hlo
          simp only [Option.map, attrObj, List.contains_cons, List.contains_nil, Bool.or_false]
          unfold Stretch.toAttr
          rw [BEq.comm, toAttr_ne_auto]
          simp only [Bool.false_eq_true, if_false]
          have := stretch_print_parse p h1 h2
          unfold Stretch.toAttr at this
          rw [this]
      have e3 : attrObj (l.padding.map Padding.toAttr) Padding.fromAttr [] = .ok (l.padding.map roundPadding) := by
        cases hlo : l.padding with
        | none => rfl
        | some p =>
          obtain ⟨h1, h2, h3, h4⟩ := hp p hlo
          simp only [Option.map, attrObj, List.contains_nil, Bool.false_eq_true, if_false]
          rw [padding_print_parse p h1 h2 h3 h4]
      simp only [e1, e2, e3, hal, Option.isSome_some, Bool.or_true, if_true]
    · have ht' : l.truthy = false := by simpa using ht
      simp only [ht', Bool.not_false, if_true]
      exact read_default


/-- a size with at most two decimals -/
def Hundredths (s : Size) : Prop := ∃ k : Nat, s.value = mkRat k 100

theorem roundSize_hundredths (s : Size) (h : Hundredths s) : roundSize s = s := by
  obtain ⟨k, hk⟩ := h
  obtain ⟨v, u⟩ := s
  simp only at hk
  subst hk
  unfold roundSize
  simp only
  have e : (mkRat (k : Int) 100 : Rat) * 100 = ((k : Int) : Rat) := by
    rw [Rat.mkRat_eq_div]; push_cast; norm_num
  rw [e, roundHalfEven_intCast]

theorem hundredths_nonneg (s : Size) (h : Hundredths s) : 0 ≤ s.value := by
  obtain ⟨k, hk⟩ := h
  rw [hk, Rat.mkRat_eq_div]; push_cast; exact div_nonneg (Nat.cast_nonneg k) (by norm_num)

def HundredthsLayout (l : Layout) : Prop :=
  (∀ p, l.origin = some p → Hundredths p.x ∧ Hundredths p.y) ∧ (∀ p, l.extent = some p → Hundredths p.h ∧ Hundredths p.v) ∧
  (∀ p, l.padding = some p → Hundredths p.before ∧ Hundredths p.after ∧ Hundredths p.start ∧ Hundredths p.end_)

theorem region_roundtrip_exact (l : Layout) (hh : HundredthsLayout l) (ht : l.truthy = true) :
    readRegion (layoutAttrs (some l)) = .ok (some ⟨l.origin, l.extent, l.padding, some (effAlign l.alignment), none⟩) := by
  obtain ⟨ho, hx, hp⟩ := hh
  have hnn : ∀ l', some l = some l' → NonNegLayout l' := by
    intro l' e
    cases e
    refine ⟨fun p h => ?_, fun p h => ?_, fun p h => ?_⟩
    · exact ⟨hundredths_nonneg _ (ho p h).1, hundredths_nonneg _ (ho p h).2⟩
    · exact ⟨hundredths_nonneg _ (hx p h).1, hundredths_nonneg _ (hx p h).2⟩
    · exact ⟨hundredths_nonneg _ (hp p h).1, hundredths_nonneg _ (hp p h).2.1, hundredths_nonneg _ (hp p h).2.2.1, hundredths_nonneg _ (hp p h).2.2.2⟩
  rw [region_roundtrip (some l) hnn]
  unfold effective
  simp only [ht, Bool.not_true, Bool.false_eq_true, if_false]
  have e1 : l.origin.map roundPoint = l.origin := by
    cases h : l.origin with
    | none => rfl
    | some p => simp only [Option.map, roundPoint, roundSize_hundredths _ (ho p h).1, roundSize_hundredths _ (ho p h).2]
  have e2 : l.extent.map roundStretch = l.extent := by
    cases h : l.extent with
    | none => rfl
    | some p => simp only [Option.map, roundStretch, roundSize_hundredths _ (hx p h).1, roundSize_hundredths _ (hx p h).2]
  have e3 : l.padding.map roundPadding = l.padding := by
    cases h : l.padding with
    | none => rfl
    | some p =>
      simp only [Option.map, roundPadding, roundSize_hundredths _ (hp p h).1, roundSize_hundredths _ (hp p h).2.1,
        roundSize_hundredths _ (hp p h).2.2.1, roundSize_hundredths _ (hp p h).2.2.2]
  rw [e1, e2, e3]

end PcVerif.DfxpLayout
