/-
  Model of the DFXP writer's `RegionCreator` (C07): unique layouts get ids `r0, r1, …`, every element is assigned the
  id of its effective layout or the default region, unreferenced regions are removed.
-/
import PcVerif.Util.Str
import PcVerif.Generated.Dfxp
namespace PcVerif.Regions

variable {L : Type} [DecidableEq L]

/-- `_OrderedSet`: unique layouts in order of first occurrence -/
def orderedSet : List L → List L → List L
  | acc, [] => acc
  | acc, x :: xs => if acc.contains x then orderedSet acc xs else orderedSet (acc ++ [x]) xs

def regionId (i : Nat) : String := "r" ++ Nat.repr i

/-- `_create_unique_regions` with the `r{seed}` id factory -/
def regionMap (layouts : List L) : List (L × String) := (orderedSet [] layouts).zipIdx.map (fun p => (p.1, regionId p.2))

def defaultRegionId : String := match Generated.dfxpDefaultRegionId with | some s => s | none => ""

/-- `get_positioning_info`: the id for an element's effective layout, falling back to the default region -/
def assign (m : List (L × String)) (layout : Option L) : String :=
  match layout with
  | none => defaultRegionId
  | some l => match m.find? (fun e => e.1 = l) with
    | some e => e.2
    | none => defaultRegionId

/-- `cleanup_regions`: only referenced regions stay -/
def cleanup (defined assigned : List String) : List String := defined.filter (fun r => assigned.contains r)

end PcVerif.Regions
