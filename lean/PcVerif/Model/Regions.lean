/-
  Model of the DFXP writer's `RegionCreator` (C07): unique layouts get ids `r0, r1, …`, every element is assigned the
  id of its effective layout or the default region, unreferenced regions are removed.
-/
import PcVerif.Util.Str
import PcVerif.Generated.Dfxp
namespace PcVerif.Regions

variable {L : Type} [DecidableEq L]

/-- `_OrderedSet`: unique layouts in order of first occurrence -/
def orderedSet : List L → List L → List L
  | acc, [] => acc
  | acc, x :: xs => if acc.contains x then orderedSet acc xs else orderedSet (acc ++ [x]) xs

def regionId (i : Nat) : String := "r" ++ Nat.repr i

/-- `_get_new_id`: the counter runs on while the id is one a style already uses (`while new_id in self._style_ids`);
    at most `taken.length` ids can be in use, which bounds the loop -/
def nextFree (taken : List String) : Nat → Nat → Nat
  | 0, seed => seed
  | fuel + 1, seed => if taken.contains (regionId seed) then nextFree taken fuel (seed + 1) else seed

/-- the ids handed out for `n` layouts, the counter standing at `seed` -/
def freshIds (taken : List String) : Nat → Nat → List String
  | 0, _ => []
  | n + 1, seed =>
    let s := nextFree taken (taken.length + 1) seed
    regionId s :: freshIds taken n (s + 1)

/-- `_create_unique_regions` with the `r{seed}` id factory; `taken` = the ids of the caption set's styles -/
def regionMap (taken : List String) (layouts : List L) : List (L × String) :=
  (orderedSet [] layouts).zip (freshIds taken (orderedSet [] layouts).length 0)

def defaultRegionId : String := match Generated.dfxpDefaultRegionId with | some s => s | none => ""

/-- `_unused_id(wanted, taken)`: underscores are appended until no style uses the id -/
def unusedId (taken : List String) : Nat → String → String
  | 0, w => w
  | fuel + 1, w => if taken.contains w then unusedId taken fuel (w ++ "_") else w

/-- the id of the default region in a document whose styles use the ids `taken` -/
def defaultRegionIdFor (taken : List String) : String := unusedId taken (taken.length + 1) defaultRegionId

/-- `get_positioning_info`: the id for an element's effective layout, falling back to the default region -/
def assign (dflt : String) (m : List (L × String)) (layout : Option L) : String :=
  match layout with
  | none => dflt
  | some l => match m.find? (fun e => e.1 = l) with
    | some e => e.2
    | none => dflt

/-- `cleanup_regions`: only referenced regions stay -/
def cleanup (defined assigned : List String) : List String := defined.filter (fun r => assigned.contains r)

end PcVerif.Regions
