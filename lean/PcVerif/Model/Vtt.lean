/-
  Model of `pycaption.webvtt` reader side (C01, C04): timestamp / timing-line parsing, `_parse`, `_decode`;
  writer side (C02, C03): `_timestamp`, `_encode_illegal_characters`, `_group_cues_by_layout`, `_convert_caption`.
  The four regular expressions are pinned as text (Generated.Format) and matched by specialised functions.
-/
import PcVerif.Model.Caption
import PcVerif.Model.Format
namespace PcVerif.Vtt
open Str

/-! ### reader: timestamps -/

/-- `^(\d+):(\d{2})(:\d{2})?\.(\d{3})` at the start of the string: groups 1,2,3(without ':'),4 -/
def matchTimestamp (s : Str) : Option (Str × Str × Option Str × Str) :=
  let (g1, r) := spanDecimals s
  if g1.isEmpty then none else
  match dropChar ':' r with
  | none => none
  | some r1 =>
    match takeDec 2 r1 with
    | none => none
    | some (g2, r2) =>
      -- first the variant with the optional `(:\d{2})` group
      let withSec : Option (Str × Str × Option Str × Str) :=
        match dropChar ':' r2 with
        | none => none
        | some r3 =>
          match takeDec 2 r3 with
          | none => none
          | some (g3, r4) =>
            match dropChar '.' r4 with
            | none => none
            | some r5 =>
              match takeDec 3 r5 with
              | some (g4, _) => some (g1, g2, some g3, g4)
              | none => none
      match withSec with
      | some x => some x
      | none =>
        match dropChar '.' r2 with
        | none => none
        | some r3 =>
          match takeDec 3 r3 with
          | some (g4, _) => some (g1, g2, none, g4)
          | none => none

def microFactors : List Nat := Generated.vttMicroLiterals
/-- `microseconds(h, m, s, f)` -/
def microseconds (h m s f : Nat) : Nat :=
  (h * microFactors.getD 0 0 + m * microFactors.getD 1 0 + s) * microFactors.getD 2 0 + f * microFactors.getD 3 0

/-- `_parse_timestamp` -/
def parseTimestamp (ts : Str) : Except PErr Nat :=
  match matchTimestamp ts with
  | none => .error .syntaxError
  | some (g1, g2, some g3, g4) => do
    let h ← pyInt g1; let m ← pyInt g2; let s ← pyInt g3; let f ← pyInt g4
    return microseconds h m s f
  | some (g1, g2, none, g4) => do
    let m ← pyInt g1; let s ← pyInt g2; let f ← pyInt g4
    return microseconds 0 m s f

/-! ### reader: timing line `^(\S+)\s+-->\s+(\S+)(?:\s+(.*?))?\s*$` -/

def spanNonSpace : Str → Str × Str
  | [] => ([], [])
  | c :: s => if isSpace c then ([], c :: s) else let r := spanNonSpace s; (c :: r.1, r.2)

def dropSpaces1 (s : Str) : Option Str :=
  match s with
  | c :: r => if isSpace c then some (lstripBy isSpace r) else none
  | [] => none

/-- Specialised matcher.  Group 1 is a maximal `\S+` run *shortened by backtracking* only if that could help:
    after `(\S+)` the pattern needs whitespace, so the run must end at whitespace — the maximal run is the only
    candidate.  Same for group 2.  Group 3 (lazy, followed by `\s*$`) is the rest with trailing whitespace
    stripped, present only if something non-blank follows.  `.` does not match '\n', lines contain none. -/
def matchTimingLine (line : Str) : Option (Str × Str × Option Str) :=
  let (g1, r1) := spanNonSpace line
  if g1.isEmpty then none else
  match dropSpaces1 r1 with
  | none => none
  | some r2 =>
    match dropPrefix? r2 "-->".toList with
    | none => none
    | some r3 =>
      match dropSpaces1 r3 with
      | none => none
      | some r4 =>
        let (g2, r5) := spanNonSpace r4
        if g2.isEmpty then none else
        let rest := strip r5
        if rest.isEmpty then some (g1, g2, none) else some (g1, g2, some rest)

structure Opts where
  shiftUs : Int := 0
  ignoreErrors : Bool := true

/-- `_parse_timing_line` (validation when `ignore_timing_errors=False`); returns start, end, cue settings -/
def parseTimingLine (o : Opts) (line : Str) (lastStart : Int) : Except PErr (Int × Int × Option Str) :=
  match matchTimingLine line with
  | none => .error .syntaxError
  | some (a, b, settings) => do
    let st ← parseTimestamp a
    let en ← parseTimestamp b
    let st : Int := st + o.shiftUs
    let en : Int := en + o.shiftUs
    if !o.ignoreErrors && (st > en || st < lastStart) then .error .readError
    else
      let settings := match settings with | some s => if s.isEmpty then none else some s | none => none
      return (st, en, settings)

/-! ### reader: `_decode` -/

def isWordChar (c : Char) : Bool := c.isAlphanum || c = '_' || (c.toNat ≥ 128 && !isSpace c)

/-- try to match `<v(\.\w+)* ([^>]*)>` at the head; returns (group 2, rest).
    `(\.\w+)*` then a space: the class list is consumed greedily, a space must follow. -/
def matchVoiceClasses : Nat → Str → Option Str
  | 0, _ => none
  | fuel + 1, s =>
    match s with
    | ' ' :: r => some r
    | '.' :: r =>
      let w := r.takeWhile isWordChar
      if w.isEmpty then none else matchVoiceClasses fuel (r.drop w.length)
    | _ => none

def matchVoiceAt (s : Str) : Option (Str × Str) :=
  match s with
  | '<' :: 'v' :: r =>
    (match matchVoiceClasses (r.length + 1) r with
     | some r2 =>
       let name := r2.takeWhile (· ≠ '>')
       (match r2.drop name.length with
        | '>' :: rest => some (name, rest)
        | _ => none)
     | none => none)
  | _ => none

/-- `VOICE_SPAN_PATTERN.sub("\\2: ", s)` -/
def subVoice : Nat → Str → Str
  | 0, s => s
  | _, [] => []
  | fuel + 1, c :: s =>
    match matchVoiceAt (c :: s) with
    | some (name, rest) => name ++ ": ".toList ++ subVoice fuel rest
    | none => c :: subVoice fuel s

/-- after `</?`: one of c i b u v ruby rt lang or a timestamp; returns the rest after the name -/
def matchOtherName (s : Str) : Option Str :=
  match s with
  | 'r' :: 'u' :: 'b' :: 'y' :: r => some r
  | 'r' :: 't' :: r => some r
  | 'l' :: 'a' :: 'n' :: 'g' :: r => some r
  | c :: r =>
    if c = 'c' || c = 'i' || c = 'b' || c = 'u' || c = 'v' then some r
    else (match matchTimestamp (c :: r) with
          | some (g1, g2, g3, g4) =>
            some ((c :: r).drop (g1.length + 1 + g2.length + (match g3 with | some x => 1 + x.length | none => 0) + 1 + g4.length))
          | none => none)
  | [] => none

/-- `</?(name).*?>` at the head: returns the rest after the first '>' (`.` excludes '\n') -/
def matchOtherAt (s : Str) : Option Str :=
  match s with
  | '<' :: r =>
    let r := match r with | '/' :: r' => r' | _ => r
    (match matchOtherName r with
     | some r2 =>
       let skipped := r2.takeWhile (fun c => c ≠ '>' && c ≠ '\n')
       (match r2.drop skipped.length with
        | '>' :: rest => some rest
        | _ => none)
     | none =>
       -- alternation order: `[cibuv]` is tried first; `ruby|rt|lang|timestamp` later — when the one-letter
       -- alternative fails to reach '>' the regex backtracks into the longer names, which start with other
       -- letters, so no second attempt can succeed except via the optional '/': `</` vs `<` + name starting '/'
       none)
  | _ => none

/-- `OTHER_SPAN_PATTERN.sub("", s)` -/
def subOther : Nat → Str → Str
  | 0, s => s
  | _, [] => []
  | fuel + 1, c :: s =>
    match matchOtherAt (c :: s) with
    | some rest => subOther fuel rest
    | none => c :: subOther fuel s

/-- `WebVTTReader._decode` -/
def decode (s : Str) : Str :=
  let s := strip s
  let s := subVoice (s.length + 1) s
  let s := subOther (s.length + 1) s
  let s := replace "&lt;".toList "<".toList s
  let s := replace "&gt;".toList ">".toList s
  let s := replace "&lrm;".toList ['‎'] s
  let s := replace "&rlm;".toList ['‏'] s
  let s := replace "&nbsp;".toList [' '] s
  replace "&amp;".toList "&".toList s

/-! ### reader: `_parse` -/

structure RCue where
  start : Int
  stop : Int
  nodes : List Node
  settings : Option Str
  deriving DecidableEq, Repr

structure PState where
  caps : List RCue := []
  start : Int := 0
  stop : Int := 0
  haveTimes : Bool := false
  nodes : List Node := []
  settings : Option Str := none
  found : Bool := false

def parseStep (o : Opts) (st : PState) (line : Str) : Except PErr PState :=
  if Str.contains "-->".toList line then
    let lastStart : Int := match st.caps.getLast? with | some c => c.start | none => 0
    match parseTimingLine o line lastStart with
    | .error e => .error e
    | .ok (a, b, set) => .ok { st with found := true, start := a, stop := b, haveTimes := true, settings := set }
  else if line.isEmpty then
    if st.found then
      if !st.nodes.isEmpty then
        .ok { st with found := false, caps := st.caps ++ [⟨st.start, st.stop, st.nodes, st.settings⟩], nodes := [] }
      else .ok { st with found := false }
    else .ok st
  else if st.found then
    let ns := if st.nodes.isEmpty then st.nodes else st.nodes ++ [Node.brk]
    .ok { st with nodes := ns ++ [Node.text (decode line)] }
  else .ok st

def parseLines (o : Opts) : PState → List Str → Except PErr PState
  | st, [] => .ok st
  | st, l :: ls => match parseStep o st l with
    | .error e => .error e
    | .ok st' => parseLines o st' ls

/-- `WebVTTReader.read` -/
def read (o : Opts) (content : Str) : Except PErr (List RCue) :=
  match parseLines o {} (splitlines content) with
  | .error e => .error e
  | .ok st =>
    let caps := if st.nodes.isEmpty then st.caps else st.caps ++ [⟨st.start, st.stop, st.nodes, st.settings⟩]
    if caps.isEmpty then .error .noCaptions else .ok caps

/-! ### writer: text -/

/-- `_encode_illegal_characters` -/
def encodeIllegal (s : Str) : Str :=
  Generated.vttEscapes.foldl (fun acc p => replace p.1.toList p.2.toList acc) s

end PcVerif.Vtt
