/-
  `Caption._format_timestamp` (base.py), `WebVTTWriter._timestamp`, `MicroDVDWriter._microtoframes`.
  Input: a non-negative rational number of microseconds (ints, or the fractional values the SCC reader
  produces).  `timedelta(microseconds=int(t))` = floor for t ≥ 0.
-/
import PcVerif.Model.Caption
import PcVerif.Generated.Format
namespace PcVerif.Fmt
open Str

def pad2 (n : Nat) : Str := padLeft 2 '0' (ofNat n)
def pad3 (n : Nat) : Str := padLeft 3 '0' (ofNat n)

/-- whole microseconds handed to `timedelta` -/
def wholeMicro (t : Rat) : Nat := t.floor.toNat

/-- `_format_timestamp(microseconds, sep)`; `duration.seconds` drops whole days -/
def formatTimestamp (t : Rat) (sep : Char) : Str :=
  let us := wholeMicro t
  let secs := us / 1000000 % 86400
  let ms := us % 1000000 / 1000
  pad2 (secs / 3600) ++ ':' :: pad2 (secs % 3600 / 60) ++ ':' :: pad2 (secs % 3600 % 60)
    ++ sep :: (pad3 ms).take 3

/-- `WebVTTWriter._timestamp`: hours only when non-zero -/
def vttTimestamp (t : Rat) : Str :=
  let us := wholeMicro t
  let secs := us / 1000000 % 86400
  let ms := us % 1000000 / 1000
  let mm := secs / 60
  let s := pad2 (mm % 60) ++ ':' :: pad2 (secs % 60) ++ '.' :: pad3 ms
  if mm / 60 = 0 then s else pad2 (mm / 60) ++ ':' :: s

/-- `MicroDVDWriter._microtoframes(micro)` = `int(micro * 25.0 / 10**6)` -/
def microToFrames (t : Rat) : Nat := (t * Generated.microdvdWriteFps / Generated.microdvdWriteDiv).floor.toNat

end PcVerif.Fmt
