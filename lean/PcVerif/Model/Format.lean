/-
  `Caption._format_timestamp` (base.py), `WebVTTWriter._timestamp`, `MicroDVDWriter._microtoframes`.
  Input: a non-negative rational number of microseconds (ints, or the fractional values the SCC reader
  produces).  `timedelta(microseconds=int(t))` = floor for t ≥ 0.
-/
import PcVerif.Model.Caption
import PcVerif.Generated.Format
namespace PcVerif.Fmt
open Str

def digitChar (n : Nat) : Char := Char.ofNat (48 + n % 10)
/-- `f"{n:02d}"` for n < 100 and `f"{n:03d}"` for n < 1000 — the only arguments that occur, because
    `duration.seconds < 86400` and `duration.microseconds // 1000 < 1000` (theorems `fields_in_range`);
    wider numbers fall back to the general rendering -/
def pad2 (n : Nat) : Str := if n < 100 then [digitChar (n / 10), digitChar n] else ofNat n
def pad3 (n : Nat) : Str := if n < 1000 then [digitChar (n / 100), digitChar (n / 10), digitChar n] else ofNat n

/-- whole microseconds handed to `timedelta` -/
def wholeMicro (t : Rat) : Nat := t.floor.toNat

/-- `_format_timestamp(microseconds, sep)`; `duration.seconds` drops whole days -/
def formatTimestamp (t : Rat) (sep : Char) : Str :=
  let us := wholeMicro t
  let secs := us / 1000000 % 86400
  let ms := us % 1000000 / 1000
  pad2 (secs / 3600) ++ ':' :: pad2 (secs % 3600 / 60) ++ ':' :: pad2 (secs % 3600 % 60)
    ++ sep :: (pad3 ms).take 3

/-- `WebVTTWriter._timestamp`: hours only when non-zero -/
def vttTimestamp (t : Rat) : Str :=
  let us := wholeMicro t
  let secs := us / 1000000 % 86400
  let ms := us % 1000000 / 1000
  let mm := secs / 60
  let s := pad2 (mm % 60) ++ ':' :: pad2 (secs % 60) ++ '.' :: pad3 ms
  if mm / 60 = 0 then s else pad2 (mm / 60) ++ ':' :: s

/-- `MicroDVDWriter._microtoframes(micro)` = `int(micro * 25.0 / 10**6)` -/
def microToFrames (t : Rat) : Nat := (t * Generated.microdvdWriteFps / Generated.microdvdWriteDiv).floor.toNat

end PcVerif.Fmt
