/-
  Model of what outlives a `write()` call and of what a writer may do to its argument (C09).
  * the argument: a writer works on a deep copy iff the generated flag says so (translate/gen_lean.py decides that
    from the AST of `write`); otherwise whatever its body does to the working set happens to the argument;
  * writer state: the `open_span` flag of the DFXP / legacy DFXP / SAMI writers, reset at entry iff the generated
    flag says so, threaded through all captions of a document by the text functions of `Model/TextWriters`.
-/
import PcVerif.Model.TextWriters
import PcVerif.Generated.World
namespace PcVerif.World
open TextW

/-- `write` = (optionally copy) then body; returns the argument as it is after the call, and the output -/
def write {Set Out : Type} (copies : Bool) (body : Set → Set × Out) (arg : Set) : Set × Out :=
  if copies then (arg, (body arg).2) else body arg

def flagsOf (k : String) : Bool × Bool :=
  match Generated.writerFlags.find? (fun e => e.1 == k) with
  | some e => e.2
  | none => (false, false)

inductive SpanWriter | dfxp | legacy | sami
  deriving DecidableEq, Repr

def resetsAtEntry : SpanWriter → Bool
  | .dfxp => Generated.dfxpResetsOpenSpan
  | .legacy => Generated.legacyResetsOpenSpan
  | .sami => Generated.samiResetsOpenSpan

def textOf : SpanWriter → Bool → List Node → Str × Bool
  | .dfxp => dfxpText
  | .legacy => legacyText
  | .sami => samiText

/-- the texts of all captions of a document, the flag being carried from caption to caption -/
def docTexts (w : SpanWriter) : Bool → List (List Node) → List Str × Bool
  | st, [] => ([], st)
  | st, c :: cs =>
    let r := textOf w st c
    let rest := docTexts w r.2 cs
    (r.1 :: rest.1, rest.2)

/-- one `write()` on a writer object whose flag currently is `st` -/
def writeDoc (w : SpanWriter) (st : Bool) (doc : List (List Node)) : List Str × Bool :=
  docTexts w (if resetsAtEntry w then false else st) doc

/-- a history of writes on one writer object -/
def history (w : SpanWriter) : Bool → List (List (List Node)) → List (List Str)
  | _, [] => []
  | st, d :: ds => let r := writeDoc w st d; r.1 :: history w r.2 ds

end PcVerif.World
