/-
  Model of `pycaption.microdvd` (C01–C04): reader (`{a}{b}text`, `{0}{0}fps` header, `|`), writer.
  Frame arithmetic is exact rational (the implementation uses `Fraction`).
-/
import PcVerif.Model.Caption
import PcVerif.Model.Format
namespace PcVerif.MicroDvd
open Str

/-- `{(\d+)}` at the head -/
def matchBrace (s : Str) : Option (Str × Str) :=
  match s with
  | '{' :: r =>
    let d := r.takeWhile isDecimal
    if d.isEmpty then none else
    (match r.drop d.length with
     | '}' :: rest => some (d, rest)
     | _ => none)
  | _ => none

/-- `re.match(r"{(\d+)}{(\d+)}(.*)", line)` — `.` stops at '\n', which a line never contains -/
def matchLine (line : Str) : Option (Str × Str × Str) :=
  match matchBrace line with
  | some (a, r) => (match matchBrace r with
    | some (b, txt) => some (a, b, txt)
    | none => none)
  | none => none

/-- a decimal `digits[.digits]` as an exact rational; `none` = spelling outside the model
    (Python's `Fraction(str)` accepts signs, exponents, `a/b`) -/
def parseDecimal (s : Str) : Option Rat :=
  match splitChar '.' s with
  | [ip] => if ip ≠ [] ∧ allAsciiDigits ip then some (natOfDigits ip : Nat) else none
  | [ip, fp] =>
    if ip ≠ [] ∧ allAsciiDigits ip ∧ fp ≠ [] ∧ allAsciiDigits fp then
      some (mkRat (natOfDigits (ip ++ fp)) (10 ^ fp.length)) else none
  | _ => none

/-- `_framestomicro(n, fps)` = `int(Fraction(n) * 10**6 / Fraction(fps))` -/
def framesToMicro (n : Nat) (fps : Rat) : Int := ((n : Rat) * Generated.microdvdReadMul / fps).floor

def textNodes : List Node → List Str → List Node
  | acc, [] => acc
  | acc, l :: ls => if l ≠ [] then textNodes (acc ++ [Node.text l, Node.brk]) ls else textNodes acc ls

def readLoop : Rat → List Caption → List Str → Except PErr (List Caption)
  | _, acc, [] => .ok acc
  | fps, acc, line :: ls =>
    if line.isEmpty then readLoop fps acc ls
    else match matchLine line with
      | none => .error .syntaxError
      | some (a, b, txt) =>
        if a = ['0'] ∧ b = ['0'] then
          (match parseDecimal (strip txt) with
           | some f => if f = 0 then .error .outOfModel else readLoop f acc ls
           | none => .error .outOfModel)
        else
          match pyInt a, pyInt b with
          | .ok av, .ok bv =>
            let nodes := textNodes [] (splitChar '|' txt)
            let acc' := if nodes.isEmpty then acc
              else acc ++ [{ start := framesToMicro av fps, stop := framesToMicro bv fps, nodes := nodes.dropLast }]
            readLoop fps acc' ls
          | .error e, _ => .error e
          | _, .error e => .error e

/-- `MicroDVDReader.read` -/
def read (content : Str) : Except PErr (List Caption) :=
  match readLoop Generated.microdvdReadDefaultFps [] (splitlines content) with
  | .error e => .error e
  | .ok [] => .error .noCaptions
  | .ok cs => .ok cs

/-! writer -/
def recreateLine (acc : Str) : Node → Str
  | .text s => acc ++ s
  | .brk => acc ++ ['|']
  | .style _ _ => acc

def collapseNewlines : Str → Str
  | [] => []
  | '\n' :: '\n' :: s => collapseNewlines ('\n' :: s)
  | c :: s => c :: collapseNewlines s

/-- `while '|\n' in s: s = s.replace('|\n', '\n')` — strips every '|' of a run that ends at a newline -/
def dropBarsBeforeNewline : Str → Str
  | [] => []
  | c :: s =>
    let r := dropBarsBeforeNewline s
    if c = '|' then (match r with | '\n' :: _ => r | _ => c :: r) else c :: r

def cueText (nodes : List Node) : Str :=
  dropBarsBeforeNewline (collapseNewlines (strip (nodes.foldl recreateLine []) ++ ['\n']))

def recreateLang : List RCap → Str
  | [] => []
  | c :: cs => '{' :: ofNat (Fmt.microToFrames c.start) ++ '}' :: '{' :: ofNat (Fmt.microToFrames c.stop) ++ '}' :: cueText c.nodes
      ++ recreateLang cs

def write (langs : List (List RCap)) : Str := (langs.map recreateLang).flatten

end PcVerif.MicroDvd
