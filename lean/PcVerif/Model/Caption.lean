/-
  Common caption model used by the text-format readers/writers (C01–C04, C08, C11).
-/
import PcVerif.Util.Str
namespace PcVerif

/-- error kinds (Python exception classes mapped to a small enum) -/
inductive PErr
  | indexError | valueError | syntaxError | timingError | noCaptions | readError | outOfModel
  deriving DecidableEq, Repr

def PErr.name : PErr → String
  | .indexError => "indexError" | .valueError => "valueError" | .syntaxError => "syntaxError"
  | .timingError => "timingError" | .noCaptions => "noCaptions" | .readError => "readError"
  | .outOfModel => "outOfModel"

/-- style flags carried by a STYLE node -/
structure Flags where
  italics : Bool := false
  bold : Bool := false
  underline : Bool := false
  deriving DecidableEq, Repr

inductive Node
  | text (s : Str)
  | brk
  | style (start : Bool) (f : Flags)
  deriving DecidableEq, Repr

structure Caption where
  start : Int
  stop : Int
  nodes : List Node
  deriving DecidableEq, Repr

/-- caption as a writer sees it: times may be fractional (SCC-derived) -/
structure RCap where
  start : Rat
  stop : Rat
  nodes : List Node
  deriving DecidableEq, Repr

/-- `int(s)` on the model's domain: non-empty ASCII digit strings; anything else is outside the model
    (Python may raise ValueError or accept signs, blanks, underscores, other scripts' digits) -/
def pyInt (s : Str) : Except PErr Nat :=
  match Str.parseNat? s with
  | some n => .ok n
  | none => .error .outOfModel

/-- `l[i]` with IndexError -/
def pyIdx {α : Type} (l : List α) (i : Nat) : Except PErr α :=
  match l[i]? with
  | some a => .ok a
  | none => .error .indexError

end PcVerif
