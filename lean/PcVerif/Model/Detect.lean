/-
  Model of `pycaption.detect_format` and the six `Reader.detect` methods (C20).
  Markers, the reader order, the MicroDVD pattern and the SCC header are generated from /repo.
-/
import PcVerif.Util.Str
import PcVerif.Generated.Detect
namespace PcVerif.Detect
open Str

inductive Kind | dfxp | microdvd | webvtt | sami | srt | scc
  deriving DecidableEq, Repr

inductive Err | noCaptions | indexError
  deriving DecidableEq, Repr

def kindOfName (n : String) : Option Kind :=
  if n = "DFXPReader" then some .dfxp else if n = "MicroDVDReader" then some .microdvd
  else if n = "WebVTTReader" then some .webvtt else if n = "SAMIReader" then some .sami
  else if n = "SRTReader" then some .srt else if n = "SCCReader" then some .scc else none

def order : List Kind := Generated.supportedReaders.filterMap kindOfName

def lit (o : Option String) : Str := match o with | some s => s.toList | none => []

def dfxpMarker : Str := lit Generated.dfxpMarker
def samiMarker : Str := lit Generated.samiMarker
def webvttMarker : Str := lit Generated.webvttMarker
def srtArrow : Str := lit Generated.srtArrow
def sccHeader : Str := lit Generated.sccHeader

def detectDfxp (s : Str) : Bool :=
  Str.contains dfxpMarker (if Generated.dfxpLowers then lower s else s)
def detectSami (s : Str) : Bool :=
  Str.contains samiMarker (if Generated.samiLowers then lower s else s)
def detectWebvtt (s : Str) : Bool := Str.contains webvttMarker s

/-- drop a non-empty run of `\d` characters -/
def dropDecimals1 : Str → Option Str
  | [] => none
  | c :: s => if isDecimal c then some (lstripBy isDecimal s) else none

/-- `{\d+}` at the start of the string; returns the rest -/
def matchBraceNum : Str → Option Str
  | '{' :: s => match dropDecimals1 s with
      | some ('}' :: r) => some r
      | _ => none
  | _ => none

/-- `re.match(r"{\d+}{\d+}", content) is not None` (pattern text pinned in Props/C20) -/
def detectMicrodvd (s : Str) : Bool :=
  match matchBraceNum s with
  | some r => (matchBraceNum r).isSome
  | none => false

/-- `SRTReader.detect`: `len(lines) > 1 and lines[0].isdigit() and '-->' in lines[1]` -/
def detectSrt (s : Str) : Except Err Bool :=
  match splitlines s with
  | l0 :: l1 :: _ => .ok (isDigitStr l0 && Str.contains srtArrow l1)
  | _ => .ok false

/-- `SCCReader.detect`: `lines[0] == HEADER` (IndexError when there is no line) -/
def detectScc (s : Str) : Except Err Bool :=
  match splitlines s with
  | l0 :: _ => .ok (l0 == sccHeader)
  | [] => .error .indexError

def detectOne : Kind → Str → Except Err Bool
  | .dfxp, s => .ok (detectDfxp s)
  | .microdvd, s => .ok (detectMicrodvd s)
  | .webvtt, s => .ok (detectWebvtt s)
  | .sami, s => .ok (detectSami s)
  | .srt, s => detectSrt s
  | .scc, s => detectScc s

def firstAccepting : List Kind → Str → Except Err (Option Kind)
  | [], _ => .ok none
  | k :: ks, s =>
    match detectOne k s with
    | .error e => .error e
    | .ok true => .ok (some k)
    | .ok false => firstAccepting ks s

/-- `pycaption.detect_format` -/
def detectFormat (s : Str) : Except Err (Option Kind) :=
  if s.isEmpty then .error .noCaptions else firstAccepting order s

def Kind.name : Kind → String
  | .dfxp => "dfxp" | .microdvd => "microdvd" | .webvtt => "webvtt" | .sami => "sami" | .srt => "srt" | .scc => "scc"
def Err.name : Err → String
  | .noCaptions => "noCaptions" | .indexError => "indexError"

end PcVerif.Detect
