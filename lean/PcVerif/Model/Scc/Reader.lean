/-
  Model of `pycaption.scc.SCCReader` (simulate_roll_up = False): doubling memory, position tracker, the three
  buffers (instruction-node lists), pop-on queue, the timing-correcting caption stash, the italics passes, the
  time translator.  Code words are opaque `String` keys looked up in the generated tables; times are exact
  rationals (the implementation computes them in binary floating point, DESIGN §2.6).
  A faithful transliteration of notes/scc_reader_restatement.py, which was compared with the real reader.
-/
import PcVerif.Util.Str
import PcVerif.Generated.Scc
namespace PcVerif.Scc
open Str

abbrev Pos := Nat × Nat

/-! ### tables -/
def lookup {β : Type} (t : List (String × β)) (k : String) : Option β := (t.find? (fun e => e.1 == k)).map (·.2)
def pacPos (w : String) : Option Pos := lookup Generated.Scc.pacMap w
def isPac (w : String) : Bool := (pacPos w).isSome
def tabOffset (w : String) : Option Nat := lookup Generated.Scc.tabOffsets w
def isCommand (w : String) : Bool := Generated.Scc.commands.contains w
def special (w : String) : Option String := lookup Generated.Scc.specialChars w
def extended (w : String) : Option String := lookup Generated.Scc.extendedChars w
def character (b : String) : Option String := lookup Generated.Scc.characters b
/-- the two bytes of a four-digit word: `word[:2]`, `word[2:]` -/
def hiByte (w : String) : String := String.ofList (w.toList.take 2)
def loByte (w : String) : String := String.ofList (w.toList.drop 2)
def isCueStarting (w : String) : Bool := Generated.Scc.cueStarting.contains w
def isMidRow (w : String) : Bool := Generated.Scc.midRowCodes.contains w
def isBackground (w : String) : Bool := Generated.Scc.backgroundCodes.contains w
def isStyleSetting (w : String) : Bool := Generated.Scc.styleSettingCommands.contains w
def isItalics (w : String) : Bool := Generated.Scc.italicsCommands.contains w
def isExtendedValue (c : Char) : Bool := Generated.Scc.extendedChars.any (fun e => e.2 == String.singleton c)

/-! ### position tracker -/
structure Tracker where
  pos : List Pos := []
  brk : Bool := false
  rep : Bool := false
  lastcol : Nat := 0
  dflt : Pos := (14, 0)
  deriving DecidableEq, Repr

def Tracker.cur (t : Tracker) : Pos := match t.pos with | p :: _ => p | [] => t.dflt

/-- `_PositioningTracker.reset()`: forget the tracked position; the default (last position set anywhere) stays -/
def Tracker.reset (t : Tracker) : Tracker := { t with pos := [], brk := false, rep := false, lastcol := 0 }

def Tracker.update (t : Tracker) (p : Pos) : Tracker :=
  let t := { t with dflt := p }
  match t.pos.getLast? with
  | none => { t with pos := [p] }
  | some cur =>
    let row := cur.1
    let col := if t.brk then t.lastcol else cur.2
    let isTab := p.1 == row && col + 1 ≤ p.2 && p.2 ≤ col + 3
    if p.1 = row + 1 then { t with pos := t.pos ++ [(p.1, col)], brk := true, lastcol := p.2 }
    else if t.brk && isTab then t
    else if p = cur then t
    else { t with pos := [p], rep := if !isTab then true else t.rep }

/-! ### instruction nodes and the node creator -/
inductive Kind | text | brk | ion | ioff | repos
  deriving DecidableEq, Repr

structure INode where
  kind : Kind
  text : Str := []
  pos : Pos
  deriving DecidableEq, Repr

structure Creator where
  coll : List INode := []
  last : Option Bool := none     -- last style: none / some true = italics on / some false = off
  hidden : Nat := 0              -- `_unwritten_mid_row_cells`: cells before the cursor taken by mid-row codes, in no text
  deriving DecidableEq, Repr

def Creator.isEmpty (c : Creator) : Bool := !c.coll.any (fun n => !n.text.isEmpty)

/-- index of the last TEXT node with non-empty text -/
def prevTextIdx (coll : List INode) : Option Nat :=
  (coll.zipIdx.filter (fun p => p.1.kind == .text && !p.1.text.isEmpty)).getLast?.map (·.2)

def appendToLast (coll : List INode) (chars : Str) : List INode :=
  match coll.getLast? with
  | some n => coll.dropLast ++ [{ n with text := n.text ++ chars }]
  | none => coll

/-- `InstructionNodeCreator.add_chars(*chars)`: `if not any(chars): return` — nothing displayable (the filler word
    `8080` is two empty strings) creates no node -/
def addChars (c : Creator) (t : Tracker) (chars : Str) : Creator × Tracker :=
  if chars.isEmpty then (c, t) else
  let c := { c with hidden := 0 }
  let cur := t.cur
  let coll := c.coll
  let coll := match coll.getLast? with
    | some n => if n.kind == .text && !t.rep then coll else coll ++ [⟨.text, [], cur⟩]
    | none => coll ++ [⟨.text, [], cur⟩]
  if t.brk then
    ({ c with coll := appendToLast (coll ++ [⟨.brk, [], cur⟩, ⟨.text, [], cur⟩]) chars }, { t with brk := false, rep := false })
  else if t.rep then
    ({ c with coll := appendToLast (coll ++ [⟨.repos, [], cur⟩, ⟨.text, [], cur⟩]) chars }, { t with rep := false })
  else ({ c with coll := appendToLast coll chars }, t)

def hasBreakBefore (coll : List INode) : Bool :=
  match coll.reverse.find? (fun n => n.kind == .text || n.kind == .brk) with
  | some n => n.kind == .brk
  | none => false

def modifyText (coll : List INode) (i : Nat) (f : Str → Str) : List INode :=
  coll.modify i (fun n => { n with text := f n.text })

/-- `handle_backspace(word)`: only within the current row — when the cursor is already on a new row on which
    nothing has been displayed yet (pending break / repositioning, or a break / repositioning node after the last
    non-empty text node) nothing is deleted -/
def backspace (c : Creator) (t : Tracker) (w : String) : Creator :=
  if w == "94a1" && c.hidden != 0 then { c with hidden := c.hidden - 1 } else
  match prevTextIdx c.coll with
  | none => c
  | some i =>
    if t.brk || t.rep || (c.coll.drop (i + 1)).any (fun n => n.kind == .brk || n.kind == .repos) then c else
    match c.coll[i]? with
    | none => c
    | some node =>
      match node.text.getLast? with
      | none => c
      | some last =>
        if ((extended w).isSome && !isExtendedValue last) || w == "94a1" then
          { c with coll := modifyText c.coll i (fun s => s.dropLast) }
        else c

def punctuationHi : List String := ["ae", "a1", "bf", "2c"]

/-- `interpret_command(command, next_command)`; the Bool is an "IndexError" flag (empty text node indexed) -/
def interpret (c : Creator) (t : Tracker) (cmd : String) (nxt : Option String) : Creator × Tracker × Bool :=
  -- positioning
  let (pos, isOff) : Option Pos × Bool :=
    match tabOffset cmd with
    | some k => (some (t.dflt.1, t.dflt.2 + k), true)
    | none => (pacPos cmd, false)
  let t := match pos with
    | some p =>
      -- nothing composed yet: an earlier caption's position is not the previous row of this one
      let t := if c.isEmpty then t.reset else t
      if isOff && hasBreakBefore c.coll then t else t.update p
    | none => t
  let c := if cmd == "94a1" then backspace c t "94a1" else if isMidRow cmd then c else { c with hidden := 0 }
  -- background colour codes delete a preceding space
  let (c, err1) : Creator × Bool :=
    if isBackground cmd then
      match c.coll.getLast? with
      | some n =>
        if n.kind == .text then
          (match n.text.getLast? with
           | some ch => if isSpace ch then ({ c with coll := c.coll.dropLast ++ [{ n with text := n.text.dropLast }] }, false) else (c, false)
           | none => (c, true))
        else (c, false)
      | none => (c, false)
    else (c, false)
  -- style switching
  let (c, t) : Creator × Tracker :=
    if isStyleSetting cmd then
      let cur := t.cur
      if isItalics cmd then
        if c.last == none || c.last == some false then
          let (coll, t) := if t.brk then (c.coll ++ [⟨.brk, [], cur⟩], { t with brk := false }) else (c.coll, t)
          ({ c with coll := coll ++ [⟨.ion, [], cur⟩], last := some true }, t)
        else (c, t)
      else
        if c.last == some true then
          let coll := c.coll ++ [⟨.ioff, [], cur⟩]
          let (coll, t) := if t.brk then (coll ++ [⟨.brk, [], cur⟩], { t with brk := false }) else (coll, t)
          ({ c with coll := coll, last := some false }, t)
        else (c, t)
    else (c, t)
  -- mid-row spacing
  let nextP := match nxt with | some n => punctuationHi.contains (n.take 2).toString | none => false
  let elided : Creator := if isMidRow cmd && (tabOffset cmd).isNone then { c with hidden := c.hidden + 1 } else c
  match prevTextIdx c.coll with
  | none => (elided, t, err1)
  | some i =>
    let prevBreak := (c.coll.drop i).any (fun n => n.kind == .brk)
    let lastIsSpace := match c.coll[i]? with
      | some n => (match n.text.getLast? with | some ch => isSpace ch | none => false)
      | none => false
    if isMidRow cmd && !prevBreak && !lastIsSpace && (tabOffset cmd).isNone && !nextP then
      if c.last == some false then
        let (c, t) := addChars c t [' ']
        (c, t, err1)
      else ({ c with coll := modifyText c.coll i (fun s => s ++ [' ']) }, t, err1)
    else (elided, t, err1)

/-! ### italics passes (`_format_italics`) -/

def skipInitialOff : Bool → List INode → List INode
  | _, [] => []
  | can, n :: ns =>
    if n.kind == .ion then n :: skipInitialOff true ns
    else if n.kind == .ioff then (if can then n :: skipInitialOff can ns else skipInitialOff can ns)
    else n :: skipInitialOff can ns

def skipEmptyText (l : List INode) : List INode := l.filter (fun n => !(n.kind == .text && n.text.isEmpty))

/-- state: none = no style node seen yet, some on? -/
def skipRedundant : Option Bool → List INode → List INode
  | _, [] => []
  | st, n :: ns =>
    if n.kind == .ion || n.kind == .ioff then
      let on := n.kind == .ion
      match st with
      | none => if on then n :: skipRedundant (some on) ns else skipRedundant (some on) ns
      | some s => if on == s then skipRedundant st ns else n :: skipRedundant (some on) ns
    else n :: skipRedundant st ns

def closeBeforeRepos : Bool → Pos → List INode → List INode
  | _, _, [] => []
  | on, lastOn, n :: ns =>
    if n.kind == .ion then n :: closeBeforeRepos true n.pos ns
    else if n.kind == .ioff then n :: closeBeforeRepos false lastOn ns
    else if n.kind == .repos && on then
      ⟨.ioff, [], lastOn⟩ :: n :: ⟨.ion, [], n.pos⟩ :: closeBeforeRepos on lastOn ns
    else n :: closeBeforeRepos on lastOn ns

def finalState : Bool → Pos → List INode → Bool × Pos
  | on, p, [] => (on, p)
  | on, p, n :: ns =>
    if n.kind == .ion then finalState true n.pos ns
    else if n.kind == .ioff then finalState false p ns
    else finalState on p ns

def ensureFinalClose (l : List INode) : List INode :=
  let (on, p) := finalState false (0, 0) l
  if on then l ++ [⟨.ioff, [], p⟩] else l

/-- remove an `on` immediately followed by `off` -/
def removeOnOff : Option INode → List INode → List INode
  | _, [] => []
  | tc, n :: ns =>
    if n.kind == .ion then removeOnOff (some n) ns
    else if n.kind == .ioff then
      (match tc with
       | some _ => removeOnOff none ns
       | none => n :: removeOnOff none ns)
    else
      (match tc with
       | some x => x :: n :: removeOnOff none ns
       | none => n :: removeOnOff none ns)

/-- remove an `off` immediately followed by `on` (a trailing pending `off` is kept) -/
def removeOffOn : Option INode → List INode → List INode
  | tc, [] => match tc with | some x => [x] | none => []
  | tc, n :: ns =>
    if n.kind == .ioff then removeOffOn (some n) ns
    else if n.kind == .ion then
      (match tc with
       | some _ => removeOffOn none ns
       | none => n :: removeOffOn none ns)
    else
      (match tc with
       | some x => x :: n :: removeOffOn none ns
       | none => n :: removeOffOn none ns)

/-- trailing blanks of a text node directly before a break, and of a final text node, are removed -/
def rstripBeforeBreak : List INode → List INode
  | [] => []
  | [n] => if n.kind == .text then [{ n with text := rstrip n.text }] else [n]
  | a :: b :: rest =>
    (if a.kind == .text && !a.text.isEmpty && b.kind == .brk then { a with text := rstrip a.text } else a)
      :: rstripBeforeBreak (b :: rest)

/-- a line break after which nothing is displayed is dropped (`while collection[-1].is_explicit_break(): pop()`) -/
def dropTrailingBreaks : List INode → List INode
  | [] => []
  | n :: ns =>
    let r := dropTrailingBreaks ns
    if r.isEmpty && n.kind == .brk then [] else n :: r

def formatItalics (coll : List INode) : List INode :=
  rstripBeforeBreak (dropTrailingBreaks <| removeOffOn none (removeOnOff none (ensureFinalClose (closeBeforeRepos false (0, 0)
    (skipRedundant none (skipEmptyText (skipInitialOff false coll)))))))

/-! ### caption stash -/
inductive CNode
  | text (s : Str) (pos : Pos)
  | brk (pos : Pos)
  | style (on : Bool) (pos : Pos)
  deriving DecidableEq, Repr

structure Cap where
  start : Rat
  stop : Rat
  nodes : List CNode := []
  layout : Option Pos := none
  deriving DecidableEq, Repr

structure Stash where
  stash : List Cap := []
  lastBatch : List Nat := []
  editing : List Nat := []
  deriving Repr

def frameUs : Rat := mkRat Generated.Scc.usPerCodewordNum Generated.Scc.usPerCodewordDen

/-- split the formatted instruction list into pre-captions at repositioning nodes -/
def toCaps (start stop : Rat) : List Cap → List INode → List Cap
  | acc, [] => acc
  | acc, n :: ns =>
    let addNode (cn : CNode) (lay : Option Pos) : List Cap :=
      match acc.getLast? with
      | some c => acc.dropLast ++ [{ c with nodes := c.nodes ++ [cn], layout := match lay with | some p => some p | none => c.layout }]
      | none => acc
    match n.kind with
    | .text => if n.text.isEmpty then toCaps start stop acc ns else toCaps start stop (addNode (.text n.text n.pos) (some n.pos)) ns
    | .repos => toCaps start stop (acc ++ [{ start := start, stop := stop }]) ns
    | .brk => toCaps start stop (addNode (.brk n.pos) none) ns
    | .ion => toCaps start stop (addNode (.style true n.pos) none) ns
    | .ioff => toCaps start stop (addNode (.style false n.pos) none) ns

def setEnd (stash : List Cap) (idxs : List Nat) (e : Rat) : List Cap :=
  idxs.foldl (fun st i => st.modify i (fun c => { c with stop := e })) stash

/-- `CaptionCreator.create_and_store(buffer, start, end)` -/
def store (S : Stash) (c : Creator) (start : Rat) (stop : Rat := 0) : Stash :=
  if c.isEmpty then S else
  let caps := toCaps start stop [{ start := start, stop := stop }] (formatItalics c.coll)
  let appendable := caps.filter (fun cp => !cp.nodes.isEmpty)
  let stash :=
    match appendable with
    | new :: _ =>
      (match S.lastBatch.getLast? with
       | some li =>
         (match S.stash[li]? with
          | some l => if l.stop = 0 ∨ new.start - l.stop < 5 * frameUs + 1 then setEnd S.stash S.lastBatch new.start else S.stash
          | none => S.stash)
       | none => S.stash)
    | [] => S.stash
  let base := stash.length
  let batch := List.range' base appendable.length
  { stash := stash ++ appendable, lastBatch := batch, editing := batch }

def correctLast (S : Stash) (e : Rat) : Stash := { S with stash := setEnd S.stash S.editing e }

/-! ### reader -/
inductive Mode | pop | paint | roll
  deriving DecidableEq, Repr

structure Reader where
  S : Stash := {}
  tr : Tracker := {}
  lastCmd : String := ""
  dbl : Bool := false
  pop : Creator := {}
  paint : Creator := {}
  roll : Creator := {}
  active : Mode := .pop
  queue : List (Creator × Rat) := []
  time : Rat := 0
  tc : String := "00:00:00;00"
  frames : Nat := 0
  off : Rat := 0
  err : Bool := false          -- a Python exception (IndexError / ValueError) would have been raised
  deriving Repr

def Reader.buf (r : Reader) : Creator := match r.active with | .pop => r.pop | .paint => r.paint | .roll => r.roll
def Reader.setBuf (r : Reader) (c : Creator) : Reader :=
  match r.active with | .pop => { r with pop := c } | .paint => { r with paint := c } | .roll => { r with roll := c }

/-- `if microseconds < 0: microseconds = 0` -/
def clampZero (us : Rat) : Rat := if us < 0 then 0 else us

/-- `_SccTimeTranslator.get_time()`; `none` when the time code cannot be parsed -/
def timeOf (tc : String) (frames : Nat) (off : Rat) : Option Rat :=
  let l := tc.toList
  if l.length < 2 then none else
  let head := l.take (l.length - 2)
  let ff := l.drop (l.length - 2)
  match parseNat? ff with
  | none => none
  | some f =>
    let stamp := head ++ ofNat (f + frames)
    let k : Rat := if stamp.elem ';' then 1 else mkRat 1001 1000
    let parts := splitChar ':' (stamp.map (fun c => if c = ';' then ':' else c))
    match parts with
    | [h, m, s, fr] =>
      (match parseNat? h, parseNat? m, parseNat? s, parseNat? fr with
       | some hv, some mv, some sv, some fv =>
         let secs : Rat := ((hv * 3600 + mv * 60 + sv : Nat) : Rat) + mkRat fv 30
         some (clampZero (secs * k * 1000000 - off))
       | _, _, _, _ => none)
    | _ => none

def Reader.now (r : Reader) : Reader × Rat :=
  match timeOf r.tc r.frames r.off with
  | some t => (r, t)
  | none => ({ r with err := true }, 0)

def popOn (r : Reader) (stop : Rat := 0) : Reader :=
  match r.queue with
  | [] => r
  | (c, st) :: q => { r with queue := q, S := store r.S c st stop }

def rollUp (r : Reader) : Reader :=
  let r := { r with S := store r.S r.buf r.time }
  let r := r.setBuf {}
  let (r, t) := r.now
  { r with time := t, S := correctLast r.S t }

def flush (r : Reader) (old : Mode) : Reader :=
  match old with
  | .pop => if r.queue.isEmpty then r else popOn r
  | .roll => if r.buf.isEmpty then r else rollUp r
  | .paint => if r.buf.isEmpty then r else ({ r with S := store r.S r.buf r.time }).setBuf {}

/-- NotifyingDict.set_active: the observer runs with the old key *before* the key changes -/
def setActive (r : Reader) (k : Mode) : Reader :=
  let r := if k ≠ r.active then flush r r.active else r
  { r with active := k }

/-- `_handle_double_command`: returns (swallowed?, new state) -/
def handleDouble (r : Reader) (w : String) : Bool × Reader :=
  let dt := (w != "94a1" && isCommand w) || isPac w || (special w).isSome
  let dt := if r.dbl then dt || (extended w).isSome || w == "94a1" else dt
  let r := if isCueStarting w && w != r.lastCmd then { r with dbl := false } else r
  if dt && w == r.lastCmd then
    (true, { r with dbl := if isCueStarting w then true else r.dbl, lastCmd := "" })
  else if isPac w && Str.contains w.toList r.lastCmd.toList then (true, { r with lastCmd := "" })
  else if (tabOffset w).isSome then
    if isPac r.lastCmd then (false, { r with lastCmd := r.lastCmd ++ " " ++ w }) else (true, r)
  else (false, { r with lastCmd := w })

def command (r : Reader) (w : String) (nxt : Option String) : Reader :=
  if w == "9420" then setActive r .pop
  else if w == "9429" then
    let r := setActive r .paint
    let r := if !r.paint.isEmpty then { r with S := store r.S r.paint r.time, paint := {} } else r
    let (r, t) := r.now
    { r with time := t }
  else if w == "9425" || w == "9426" || w == "94a7" then
    let r := setActive r .roll
    let r := if !r.roll.isEmpty then { r with S := store r.S r.roll r.time, roll := {} } else r
    let (r, t) := r.now
    { r with time := t }
  else if w == "94ae" then r.setBuf {}
  else if w == "942f" then
    let (r, t) := r.now
    let r := { r with time := t }
    let r := if r.queue.isEmpty then r else popOn r t
    if r.buf.isEmpty then r
    else ({ r with queue := r.queue ++ [(r.buf, t)] }).setBuf {}
  else if w == "94ad" then (if r.buf.isEmpty then r else rollUp r)
  else if w == "942c" && !r.queue.isEmpty then
    let (r, t) := r.now
    popOn r t
  else
    let (c, t, e) := interpret r.buf r.tr w nxt
    { (r.setBuf c) with tr := t, err := r.err || e }

def word (r : Reader) (w : String) (nxt : Option String) : Reader :=
  let (sw, r) := handleDouble r w
  if sw then { r with frames := r.frames + 1 } else
  let r :=
    if isCommand w || isPac w then command r w nxt
    else match special w with
      | some ch => let (c, t) := addChars r.buf r.tr ch.toList; { (r.setBuf c) with tr := t }
      | none =>
        match extended w with
        | some ch =>
          let c := backspace r.buf r.tr w
          let (c, t) := addChars c r.tr ch.toList
          { (r.setBuf c) with tr := t }
        | none =>
          match character (hiByte w), character (loByte w) with
          | some a, some b => let (c, t) := addChars r.buf r.tr (a.toList ++ b.toList); { (r.setBuf c) with tr := t }
          | _, _ => r
  { r with frames := r.frames + 1 }

def words (r : Reader) : List String → Reader
  | [] => r
  | w :: ws =>
    let w' := String.ofList (strip w.toList)
    if w'.length = 4 then words (word r w' ws.head?) ws else words r ws

/-- `([0-9:;]*)([\s\t]*)((.)*)` on the lower-cased line: time code, blanks, rest -/
def splitLine (line : Str) : Str × Str :=
  let tc := line.takeWhile (fun c => isAsciiDigit c || c = ':' || c = ';')
  let rest := lstripBy isSpace (line.drop tc.length)
  (tc, rest.takeWhile (· ≠ '\n'))

def translateLine (r : Reader) (line : Str) : Reader :=
  if (strip line).isEmpty then r else
  let (tc, rest) := splitLine (lower line)
  let r := { r with tc := String.ofList tc, frames := 0 }
  words r ((splitChar ' ' rest).map String.ofList)

/-- walking back from the newest caption: every caption whose end is still 0 gets start + 4 s; stop at the first
    caption that has an end (`fix_last_captions_without_ending`) -/
def tailRev : List Cap → List Cap
  | [] => []
  | c :: cs => if c.stop ≠ 0 then c :: cs else { c with stop := c.start + 4000000 } :: tailRev cs

def tail4s (caps : List Cap) : List Cap := (tailRev caps.reverse).reverse

structure Result where
  caps : List Cap
  err : Bool

/-- everything `read` does up to and including the final flush; the post-processing (length scan, flash check,
    4 s tail) is in `Scc.finish` -/
def run (content : Str) (offsetSeconds : Rat) : Reader :=
  let lines := splitlines content
  let r : Reader := { off := offsetSeconds * 1000000 }
  let r := (lines.drop 1).foldl translateLine r
  flush r r.active

end PcVerif.Scc
