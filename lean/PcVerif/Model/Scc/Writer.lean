/-
  Model of `pycaption.scc.SCCWriter` (C17): `_text_to_code` on the laid-out lines (the result of
  `textwrap.fill(x, 32, ...)`, a library step whose contract — rows of at most 32 columns broken at spaces — is
  checked on the output), the pre-roll pass, `_format_timestamp`.  Times are exact rationals.
-/
import PcVerif.Model.Scc.Reader
import PcVerif.Model.Format
namespace PcVerif.SccW
open Str Scc

def charCode (c : Char) : Str :=
  match lookup Generated.Scc.charToCode (String.singleton c) with
  | some code => code.toList
  | none =>
    match lookup Generated.Scc.specialOrExtendedToCode (String.singleton c) with
    | some code => code.toList
    | none => "91b6".toList

/-- `_maybe_align`: finish a half word with the no-op byte -/
def maybeAlign (code : Str) : Str := if code.length % 5 = 2 then code ++ "80 ".toList else code
/-- `_maybe_space` -/
def maybeSpace (code : Str) : Str := if code.length % 5 = 4 then code ++ [' '] else code

/-- `_print_character` followed by `_maybe_space` -/
def printChar (code : Str) (c : Char) : Str :=
  let cc := charCode c
  maybeSpace (if cc.length = 2 then code ++ cc else if cc.length = 4 then maybeAlign code ++ cc else code)

def pacFor (row : Nat) : Str :=
  ((Generated.Scc.pacHighByRow.getD row "") ++ (Generated.Scc.pacLowByRowRestricted.getD row "")).toList ++ [' ']

/-- one laid-out line on screen row `row` -/
def lineCode (code : Str) (row : Nat) (line : Str) : Str :=
  maybeAlign (line.foldl printChar (code ++ pacFor row ++ pacFor row))

/-- `_text_to_code`: rows are bottom aligned, `row = 16 - len(lines) + i` -/
def rowsCode : Str → Nat → List Str → Str
  | code, _, [] => code
  | code, row, l :: ls => rowsCode (lineCode code row l) (row + 1) ls

def textToCode (lines : List Str) : Str := rowsCode [] (16 - lines.length) lines

def frameUs : Rat := Scc.frameUs

structure Cue where
  code : Str
  start : Rat
  stop : Option Rat

/-- PASS 2: every caption is sent `(len(code)/5 + 8)` code words before its start (not below 0); the previous
    caption's erase command is dropped when it would collide with the transmission -/
def preroll : List Cue → List Cue → List Cue
  | done, [] => done
  | done, c :: cs =>
    let words : Rat := (c.code.length : Rat) / 5 + 8
    let codeStart := c.start - words * frameUs
    let codeStart := if codeStart < 0 then 0 else codeStart
    let done :=
      match done.getLast? with
      | some p =>
        (match p.stop with
         | some pe => if pe + 3 * frameUs ≥ codeStart then done.dropLast ++ [{ p with stop := none }] else done
         | none => done)
      | none => done
    preroll (done ++ [{ c with start := codeStart }]) cs

def two (n : Nat) : Str := Fmt.pad2 n

/-- `_format_timestamp`: non-drop-frame time code of an instant -/
def formatTimestamp (us : Rat) : Str :=
  let secs : Rat := us / 1000000 * (1000 / 1001)
  let h := (secs / 3600).floor.toNat
  let s1 := secs - h * 3600
  let m := (s1 / 60).floor.toNat
  let s2 := s1 - m * 60
  let s := s2.floor.toNat
  let f := ((s2 - s) * 30).floor.toNat
  two h ++ ':' :: two m ++ ':' :: two s ++ ':' :: two f

def writeCues : List Cue → Str
  | [] => []
  | c :: cs =>
    formatTimestamp c.start ++ '\t' :: "94ae 94ae 9420 9420 ".toList ++ c.code ++ "942c 942c 942f 942f\n\n".toList
      ++ (match c.stop with
          | some e => formatTimestamp e ++ "\t942c 942c\n\n".toList
          | none => [])
      ++ writeCues cs

/-- `SCCWriter.write` for the first language: captions given as (laid-out lines, start, end) -/
def write (caps : List (List Str × Rat × Rat)) : Str :=
  Generated.Scc.header.toList ++ "\n\n".toList ++
    (if caps.isEmpty then [] else
      writeCues (preroll [] (caps.map fun c => { code := textToCode c.1, start := c.2.1, stop := some c.2.2 })))

end PcVerif.SccW
