/-
  Post-processing of `SCCReader.read` (C05 layout, C06 flash rejection and 4 s tail, C15 length scan).
-/
import PcVerif.Model.Scc.Reader
import PcVerif.Model.Format
namespace PcVerif.Scc
open Str

/-- `_get_layout_from_tuple`: (x %, y %) of the origin -/
def layoutOf (p : Pos) : Rat × Rat := (80 * (p.2 : Rat) / 32 + 10, 90 * ((p.1 : Rat) - 1) / 15 + 5)

/-- `"".join(caption.get_text_nodes())` -/
def capText (c : Cap) : Str :=
  c.nodes.flatMap fun n => match n with | .text s _ => s | .brk _ => ['\n'] | .style _ _ => []

def longLines (c : Cap) : List Str := (splitChar '\n' (capText c)).filter (fun l => 32 < l.length)

/-- the scan: an insertion-ordered dict from `format_start()` keys to the offending lines, always extended -/
def scanStep (d : List (Str × List Str)) (key : Str) (ls : List Str) : List (Str × List Str) :=
  if d.any (fun e => e.1 == key) then d.map (fun e => if e.1 == key then (e.1, e.2 ++ ls) else e)
  else d ++ [(key, ls)]

def scan (caps : List Cap) : List (Str × List Str) :=
  caps.foldl (fun d c => scanStep d (Fmt.formatTimestamp c.start '.') (longLines c)) []

def scanMessage (d : List (Str × List Str)) : Str :=
  d.flatMap fun e => if e.2.isEmpty then [] else
    'a' :: ("round ".toList ++ e.1 ++ " - ".toList ++ e.2.flatMap (fun l => l ++ " - Length ".toList ++ ofNat l.length ++ ['\n']))

inductive Outcome
  | lineLength (msg : Str)
  | timing
  | noCaptions
  | pyError            -- IndexError etc. raised inside the state machine (ill-formed streams)
  | ok (caps : List Cap)

def finish (r : Reader) : Outcome :=
  if r.err then .pyError else
  let caps := r.S.stash
  let msg := scanMessage (scan caps)
  if !msg.isEmpty then .lineLength msg
  else if caps.any (fun c => decide (0 < c.stop - c.start) && decide (c.stop - c.start < 50000)) then .timing
  else if caps.isEmpty then .noCaptions
  else .ok (tail4s caps)

def read (content : Str) (offsetSeconds : Rat) : Outcome := finish (run content offsetSeconds)

end PcVerif.Scc
