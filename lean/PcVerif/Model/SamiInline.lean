/-
  `SAMIReader._translate_style` (pycaption/sami.py): the inline `style="..."` attribute of a SAMI element, already cut at `;`,
  folded into the attribute dict of the element and into the reader's `first_alignment`.
-/
import PcVerif.Util.Str
namespace PcVerif.SamiInline
open PcVerif PcVerif.Str

structure St where
  italics : Bool := false
  bold : Bool := false
  underline : Bool := false
  fontFamily : Option Str := none
  fontSize : Option Str := none
  lang : Option Str := none
  color : Option Str := none
  /-- the horizontal name of `self.first_alignment`, `none` while nothing is saved -/
  align : Option Str := none
  deriving DecidableEq, Repr

/-- `Alignment.from_horizontal_and_vertical_align(text_align=v)`: an alignment for the five names, else `None` -/
def alignName (v : Str) : Option Str :=
  if v = "left".toList ∨ v = "start".toList ∨ v = "center".toList ∨ v = "right".toList ∨ v = "end".toList then some v else none

/-- `style.split(':')` must give exactly two pieces: the property as written, the value without surrounding white space
    (every use of the value is `value.strip()`) -/
def parse (d : Str) : Option (Str × Str) :=
  match splitChar ':' d with
  | [p, v] => some (p, strip v)
  | _ => none

/-- `text-align` goes to the reader (`_save_first_alignment`: kept only while nothing is saved), the rest through
    `_translate_css_property` -/
def declPV (s : St) (p v : Str) : St :=
  if p = "text-align".toList then
    (match s.align with | some _ => s | none => { s with align := alignName v })
  else if p = "font-family".toList then { s with fontFamily := some v }
  else if p = "font-size".toList then { s with fontSize := some v }
  else if p = "font-style".toList ∧ v = "italic".toList then { s with italics := true }
  else if p = "text-decoration".toList ∧ v = "underline".toList then { s with underline := true }
  else if p = "font-weight".toList ∧ v = "bold".toList then { s with bold := true }
  else if p = "lang".toList then { s with lang := some v }
  else if p = "color".toList then { s with color := some v }
  else s

def decl (s : St) (d : Str) : St :=
  match parse d with
  | some (p, v) => declPV s p v
  | none => s

/-- `_translate_style(attrs, css_attrs['style'].split(';'))` -/
def translateStyle (s : St) (style : Str) : St := (splitChar ';' style).foldl decl s

end PcVerif.SamiInline
