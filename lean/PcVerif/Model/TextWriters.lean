/-
  Text-serialising parts of the DFXP, legacy DFXP, SAMI and WebVTT writers (C03, C07, C11) as pure string
  functions with the `open_span` flag as explicit state.
-/
import PcVerif.Model.Caption
import PcVerif.Generated.Format
namespace PcVerif.TextW
open Str

/-- `xml.sax.saxutils.escape` : & < > -/
def escapeChar (c : Char) : Str :=
  if c = '&' then "&amp;".toList else if c = '<' then "&lt;".toList else if c = '>' then "&gt;".toList else [c]
def escape (s : Str) : Str := s.flatMap escapeChar

def brkMarkup : Str := "<br/>\n    ".toList

/-! ### DFXPWriter._recreate_text / _recreate_span (style nodes without layout) -/

/-- attributes `_recreate_style` yields for a style node's flags: only italics has a DFXP rendering -/
def dfxpStyles (f : Flags) : Str := if f.italics then ' ' :: "tts:fontStyle=\"italic\"".toList else []

def dfxpSpan (line : Str) (openSpan : Bool) (start : Bool) (styles : Str) : Str × Bool :=
  if start then
    if styles.isEmpty then (line, openSpan)
    else ((if openSpan then rstrip line ++ "</span> ".toList else line) ++ "<span".toList ++ styles ++ ['>'], true)
  else if openSpan then (rstrip line ++ "</span> ".toList, false)
  else (line, openSpan)

def dfxpStep (trailingSpace : Bool) (st : Str × Bool) : Node → Str × Bool
  | .text s => (st.1 ++ escape s ++ (if trailingSpace then [' '] else []), st.2)
  | .brk => (rstrip st.1 ++ brkMarkup, st.2)
  | .style start f => dfxpSpan st.1 st.2 start (dfxpStyles f)

/-- `DFXPWriter._recreate_text`: returns the raw element content and the writer's `open_span` afterwards -/
def dfxpText (openSpan : Bool) (nodes : List Node) : Str × Bool :=
  let r := nodes.foldl (dfxpStep false) ([], openSpan)
  (rstrip r.1, r.2)

/-- `LegacyDFXPWriter._recreate_text` (adds a space after every text node) -/
def legacyText (openSpan : Bool) (nodes : List Node) : Str × Bool :=
  let r := nodes.foldl (dfxpStep true) ([], openSpan)
  (rstrip r.1, r.2)

/-! ### SAMIWriter._recreate_text -/

def samiStyleCss (f : Flags) : Str :=
  (if f.italics then "font-style:italic;".toList else []) ++ (if f.bold then "font-weight:bold;".toList else [])
    ++ (if f.underline then "text-decoration:underline;".toList else [])

def samiStep (st : Str × Bool) : Node → Str × Bool
  | .text s => (st.1 ++ escape s ++ [' '], st.2)
  | .brk => (rstrip st.1 ++ brkMarkup, st.2)
  | .style true f =>
    let line := if st.2 then rstrip st.1 ++ "</span> ".toList else st.1
    let css := samiStyleCss f
    if css.isEmpty then (line, st.2) else (line ++ "<span style=\"".toList ++ css ++ "\">".toList, true)
  | .style false _ => if st.2 then (rstrip st.1 ++ "</span> ".toList, false) else st

def samiText (openSpan : Bool) (nodes : List Node) : Str × Bool :=
  let r := nodes.foldl samiStep ([], openSpan)
  (rstrip r.1, r.2)

/-! ### WebVTTWriter._group_cues_by_layout -/

inductive LNode
  | text (s : Str) (layout : Nat)      -- layout 0 = none
  | brk
  | style (start : Bool) (f : Flags)
  deriving DecidableEq, Repr

/-- `_encode_illegal_characters`: the chain of `str.replace` calls, in source order (regenerated from the source) -/
def vttEncode (s : Str) : Str :=
  Generated.vttEscapes.foldl (fun acc p => replace p.1.toList p.2.toList acc) s

def vttTags (start : Bool) (f : Flags) : Str :=
  if start then
    (if f.italics then "<i>".toList else []) ++ (if f.underline then "<u>".toList else []) ++ (if f.bold then "<b>".toList else [])
  else
    (if f.bold then "</b>".toList else []) ++ (if f.underline then "</u>".toList else []) ++ (if f.italics then "</i>".toList else [])

/-- the `[opening, closing]` tag pairs of a style node, in the order the writer goes through them
    (italics, underline, bold for an opening node; reversed for a closing one) -/
def vttTagPairs (start : Bool) (f : Flags) : List (Str × Str) :=
  let l := (if f.italics then [("<i>".toList, "</i>".toList)] else []) ++ (if f.underline then [("<u>".toList, "</u>".toList)] else [])
    ++ (if f.bold then [("<b>".toList, "</b>".toList)] else [])
  if start then l else l.reverse

/-- remove the innermost (last) occurrence of a pair from the stack of open tags -/
def removeLast (t : Str × Str) (l : List (Str × Str)) : List (Str × Str) := (l.reverse.erase t).reverse

structure GState where
  groups : List (Str × Nat) := []
  s : Str := []
  cur : Nat := 0
  prevIsText : Bool := false
  first : Bool := true
  /-- style tags open at this point of the cue text, innermost last -/
  openTags : List (Str × Str) := []

def vttStep (st : GState) : LNode → GState
  | .text t lay =>
    -- a new cue for a new layout: the open tags are closed in the cue that ends and opened again in the new one
    let (groups, s) := if !st.s.isEmpty && st.cur ≠ 0 && lay ≠ st.cur then
        (st.groups ++ [(st.s ++ (st.openTags.reverse.flatMap (·.2)), st.cur)], st.openTags.flatMap (·.1)) else (st.groups, st.s)
    let enc := vttEncode t
    { st with groups := groups, s := s ++ (if enc.isEmpty then "&nbsp;".toList else enc), cur := lay, prevIsText := true, first := false }
  | .style start f =>
    let pairs := vttTagPairs start f
    { st with s := st.s ++ vttTags start f, prevIsText := false, first := false,
              openTags := if start then st.openTags ++ pairs else pairs.foldl (fun acc t => removeLast t acc) st.openTags }
  | .brk =>
    let s := if !st.first && !st.prevIsText then st.s ++ "&nbsp;".toList else st.s
    let s := if st.first then s ++ "&nbsp;".toList else s
    { st with s := s ++ ['\n'], prevIsText := false, first := false }

/-- `_group_cues_by_layout`: list of (cue text, layout id) -/
def vttGroups (nodes : List LNode) : List (Str × Nat) :=
  let st := nodes.foldl vttStep {}
  if st.s.isEmpty then st.groups else st.groups ++ [(st.s, st.cur)]

end PcVerif.TextW
