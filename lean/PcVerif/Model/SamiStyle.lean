/-
  Model of the language part of `SAMIWriter._recreate_stylesheet` (C14): after the rules of the caption set's own
  styles, every language gets a class rule `.<lang> { lang: <lang>; … }` unless the text `lang: <lang>;` already
  occurs in the stylesheet.  The searched text is regenerated from the f-string in the source.
-/
import PcVerif.Util.Str
import PcVerif.Generated.Sami
namespace PcVerif.SamiW
open Str

def optStr (o : Option String) : Str := match o with | some s => s.toList | none => []

/-- `lang_string`: the text whose presence means "this language is declared already" -/
def langRule (lang : Str) : Str := optStr Generated.samiLangTestPre ++ lang ++ optStr Generated.samiLangTestPost

/-- one declaration as `_recreate_style_block` writes it: `f' {attr}: {value};\n    '` -/
def declLine (attr value : Str) : Str := ' ' :: attr ++ ": ".toList ++ value ++ ";\n    ".toList

/-- `_recreate_style_block(lang, {'lang': lang}, layout)`: a class selector; `lang` sorts before the `margin-*` rules a
    language layout with padding adds (`extra`) -/
def langBlock (extra : Str → Str) (lang : Str) : Str :=
  "\n    .".toList ++ lang ++ " {\n    ".toList ++ declLine "lang".toList lang ++ extra lang ++ "}\n".toList

/-- the selector of a language's own class as it is written: `.<lang> {` -/
def blockHead (lang : Str) : Str := '.' :: lang ++ " {".toList

/-- the loop over `caption_set.get_languages()`; `test` is the text searched for; `labels l` says that some paragraph of
    language `l` is labelled with the language code itself (its own class declares no language) -/
def declareLangs (test : Str → Str) (extra : Str → Str) (labels : Str → Bool) (sheet : Str) : List Str → Str
  | [] => sheet
  | l :: ls =>
    declareLangs test extra labels
      (if contains (test l) sheet && !(labels l && !contains (blockHead l) sheet) then sheet else sheet ++ langBlock extra l) ls

/-- `_recreate_stylesheet`: `sheet0` is what the caption set's own styles gave -/
def stylesheet (extra : Str → Str) (labels : Str → Bool) (sheet0 : Str) (langs : List Str) : Str :=
  declareLangs langRule extra labels sheet0 langs ++ "   -->".toList

end PcVerif.SamiW
