/-
  Model of what a `read()` shares with earlier and later reads (C10):
  * object identities: `read` allocates fresh ids for the style dictionaries it builds, except that an object
    constructed with the default argument receives the id of the shared default iff the generated flag says the
    default is a mutable literal;
  * reader objects: `SCCReader.read` starts from a clean state iff the generated flag says that every state field
    assigned in `__init__` is re-assigned before the first line is processed;
  * the SAMI language container: first-appearance order iff it is an ordered container.
-/
import PcVerif.Model.Scc.Finish
import PcVerif.Generated.ReadWorld
namespace PcVerif.ReadWorld

structure Alloc where
  next : Nat

/-- ids of the style dicts of a result with `n` captions: n caption-style dicts followed by the set's styles dict -/
def readAlloc (mutableDefault : Bool) (sharedId : Nat) (a : Alloc) (n : Nat) : List Nat × Alloc :=
  if mutableDefault then (List.replicate (n + 1) sharedId, a)
  else (List.range' a.next (n + 1), ⟨a.next + (n + 1)⟩)

/-- a store of dict contents by id; an edit writes one cell -/
def edit (store : Nat → List Nat) (id v : Nat) : Nat → List Nat := fun i => if i = id then v :: store i else store i

/-- an object (a layout, a pair of sizes, a node) built for a key.  Through a memoising function (`functools.lru_cache`, a
    weak-value flyweight table) the object stored for the key is handed out again; without one, every call builds a new object -/
def construct (memo : Bool) (table : List (Nat × Nat)) (a : Alloc) (key : Nat) : Nat × List (Nat × Nat) × Alloc :=
  if memo then
    match table.lookup key with
    | some o => (o, table, a)
    | none => (a.next, (key, a.next) :: table, ⟨a.next + 1⟩)
  else (a.next, table, ⟨a.next + 1⟩)

/-- `SCCReader.read` on a reader object in state `r0` -/
def sccReadFrom (resets : Bool) (r0 : Scc.Reader) (content : Str) (offset : Rat) : Scc.Reader :=
  let r : Scc.Reader := if resets then { off := offset * 1000000 } else { r0 with off := offset * 1000000 }
  let r := ((Str.splitlines content).drop 1).foldl Scc.translateLine r
  Scc.flush r r.active

/-- languages collected while parsing: `ordered` = insertion-ordered dict; otherwise a set whose iteration order is
    an arbitrary permutation `π` of the distinct codes (hash seed) -/
def firstAppearance : List Str → List Str → List Str
  | seen, [] => seen
  | seen, l :: ls => if seen.contains l then firstAppearance seen ls else firstAppearance (seen ++ [l]) ls

def collectLangs (ordered : Bool) (π : List Str → List Str) (ls : List Str) : List Str :=
  if ordered then firstAppearance [] ls else π (firstAppearance [] ls)

end PcVerif.ReadWorld
