/-
  Model of the DFXP reader's time handling (C01): `_convert_timestamp_to_microseconds`
  (TIME_EXPRESSION_PATTERN = `^(clock|offset)$`), `_find_and_convert_times`.  Exact rational arithmetic
  (the implementation uses `Fraction`), truncated to whole microseconds.
-/
import PcVerif.Model.Caption
import PcVerif.Generated.Dfxp
namespace PcVerif.Dfxp
open Str

def atDollar (s : Str) : Bool := s == [] || s == ['\n']

inductive Tail | none | frames (f : Str) | frac (f : Str)
  deriving DecidableEq, Repr

/-- `(?P<hours>\d+):(?P<minutes>\d{2}):(?P<seconds>\d{2})(:(?P<frames>\d{2})|\.(?P<sub_frames>\d+))?$` -/
def matchClock (s : Str) : Option (Str × Str × Str × Tail) :=
  let (h, r) := spanDecimals s
  if h.isEmpty then none else
  match dropChar ':' r with
  | none => none
  | some r1 =>
    match takeDec 2 r1 with
    | none => none
    | some (m, r1') =>
      match dropChar ':' r1' with
      | none => none
      | some r2 =>
        match takeDec 2 r2 with
        | none => none
        | some (sec, r3) =>
          match dropChar ':' r3 with
          | some r4 =>
            (match takeDec 2 r4 with
             | some (f, r5) => if atDollar r5 then some (h, m, sec, .frames f) else none
             | none => none)
          | none =>
            match dropChar '.' r3 with
            | some r4 =>
              let (f, r5) := spanDecimals r4
              if !f.isEmpty && atDollar r5 then some (h, m, sec, .frac f) else none
            | none => if atDollar r3 then some (h, m, sec, .none) else none

inductive Metric | h | m | s | ms | f | t
  deriving DecidableEq, Repr

/-- `(?P<time_count>\d+(\.\d+)?)(?P<metric>h|m|s|ms|f|t)$` : alternatives in order, first reaching `$` -/
def matchMetric (r : Str) : Option Metric :=
  if r == ['h'] || r == ['h', '\n'] then some .h
  else if r == ['m'] || r == ['m', '\n'] then some .m
  else if r == ['s'] || r == ['s', '\n'] then some .s
  else if r == ['m', 's'] || r == ['m', 's', '\n'] then some .ms
  else if r == ['f'] || r == ['f', '\n'] then some .f
  else if r == ['t'] || r == ['t', '\n'] then some .t
  else none

def matchOffset (s : Str) : Option (Str × Str × Metric) :=
  let (ip, r) := spanDecimals s
  if ip.isEmpty then none else
  match r with
  | '.' :: r1 =>
    let (fp, r2) := spanDecimals r1
    if fp.isEmpty then none
    else (match matchMetric r2 with | some m => some (ip, fp, m) | none => none)
  | _ => (match matchMetric r with | some m => some (ip, [], m) | none => none)

def usH : Nat := Generated.dfxpUsPerHour
def usM : Nat := Generated.dfxpUsPerMinute
def usS : Nat := Generated.dfxpUsPerSecond
def usMs : Nat := Generated.dfxpUsPerMs
def frameBase : Nat := Generated.dfxpFrameBase

def decimalValue (ip fp : Str) : Rat := mkRat (natOfDigits (ip ++ fp)) (10 ^ fp.length)

def digitsOk (l : List Str) : Bool := l.all (fun s => allAsciiDigits s)

/-- `_convert_timestamp_to_microseconds` -/
def timeExpr (stamp : Str) : Except PErr Int :=
  match matchClock stamp with
  | some (h, m, s, tail) =>
    if !digitsOk [h, m, s] then .error .outOfModel else
    let base : Rat := (natOfDigits h * usH + natOfDigits m * usM + natOfDigits s * usS : Nat)
    (match tail with
     | .none => .ok base.floor
     | .frac f => if !allAsciiDigits f then .error .outOfModel
                  else .ok (base + mkRat (natOfDigits f) (10 ^ f.length) * usS).floor
     | .frames f => if !allAsciiDigits f then .error .outOfModel
                    else .ok (base + mkRat (natOfDigits f) frameBase * usS).floor)
  | none =>
    match matchOffset stamp with
    | none => .error .timingError
    | some (ip, fp, metric) =>
      if !digitsOk [ip, fp] then .error .outOfModel else
      let v := decimalValue ip fp
      (match metric with
       | .h => .ok (v * usH).floor
       | .m => .ok (v * usM).floor
       | .s => .ok (v * usS).floor
       | .ms => .ok (v * usMs).floor
       | .f => .ok (v / frameBase * usS).floor
       | .t => .error .valueError)   -- NotImplementedError

/-- `_find_and_convert_times`: attributes `begin`, `end`, `dur` (absent or empty = falsy) -/
def times (beginA endA durA : Option Str) : Except PErr (Int × Int) :=
  let truthy (o : Option Str) := match o with | some s => !s.isEmpty | none => false
  if !truthy beginA then .error .timingError
  else if !truthy endA && !truthy durA then .error .timingError
  else do
    let st ← timeExpr (beginA.getD [])
    if truthy endA then
      let en ← timeExpr (endA.getD [])
      return (st, en)
    else
      let d ← timeExpr (durA.getD [])
      return (st, st + d)

end PcVerif.Dfxp
