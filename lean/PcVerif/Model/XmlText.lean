/-
  Text leaves of the DFXP and SAMI readers (C04): the pinned indentation pattern `^(?:[\n\r]+\s*)?(.+)` with its
  backtracking, followed by the whitespace-split remainder of the leaf (text wrapped over several source lines);
  and the conversion of an element tree to TEXT / BREAK / STYLE nodes.
-/
import PcVerif.Model.Caption
namespace PcVerif.XmlText
open Str

def isNlCr (c : Char) : Bool := c = '\n' || c = '\r'

/-- index of the last position `q ≥ 1` (q < len) with `s[q] ≠ '\n'`, scanning the list with its index -/
def lastNonNlFrom1 (s : Str) : Option Nat :=
  (s.zipIdx.filter (fun p => decide (1 ≤ p.2) && p.1 ≠ '\n')).getLast?.map (·.2)

/-- start position of group 1 of the pattern, `none` = no match (derivation in DESIGN §3 C04) -/
def matchStart (s : Str) : Option Nat :=
  match s with
  | [] => none
  | c0 :: _ =>
    if !isNlCr c0 then some 0
    else
      let lead := (s.takeWhile isNlCr).length
      let w := lead + ((s.drop lead).takeWhile isSpace).length
      if w < s.length then some w
      else match lastNonNlFrom1 s with
        | some q => some q
        | none => if c0 ≠ '\n' then some 0 else none

/-- Python `str.split()` : split on runs of whitespace, no empty strings (`cur` = reversed current word) -/
def splitWsAux : Str → Str → List Str
  | cur, [] => if cur.isEmpty then [] else [cur.reverse]
  | cur, c :: s =>
    if isSpace c then (if cur.isEmpty then splitWsAux [] s else cur.reverse :: splitWsAux [] s)
    else splitWsAux (c :: cur) s

def splitWs (s : Str) : List Str := splitWsAux [] s

/-- text of a leaf: group 1 (up to the next '\n'); when words follow on later source lines they are appended,
    separated by single spaces, and one trailing space is kept if the leaf ends in whitespace -/
def leafText (s : Str) : Option Str :=
  match matchStart s with
  | none => none
  | some q =>
    let rest := s.drop q
    let g1 := rest.takeWhile (· ≠ '\n')
    let tail := rest.drop g1.length
    let words := splitWs tail
    if words.isEmpty then some g1
    else
      let t := join [' '] (rstrip g1 :: words)
      some (if (match tail.getLast? with | some c => isSpace c | none => false) then t ++ [' '] else t)

end PcVerif.XmlText
