/-
  Language handling of the DFXP reader (C14): `div` language = xml:lang of the div, else xml:lang of `tt`, else the
  configured default; results are kept in an insertion-ordered dict (a repeated language replaces the list, keeps the
  position).
-/
import PcVerif.Util.Str
import PcVerif.Generated.Dfxp
namespace PcVerif.Langs

def divLang (tt : Option Str) (dflt : Str) (div : Option Str) : Str :=
  match div with
  | some l => l
  | none => match tt with
    | some l => l
    | none => dflt

/-- insertion-ordered dict keys after assigning each div's language in document order -/
def dictKeys : List Str → List Str → List Str
  | keys, [] => keys
  | keys, l :: ls => if keys.contains l then dictKeys keys ls else dictKeys (keys ++ [l]) ls

def readLanguages (tt : Option Str) (dflt : Str) (divs : List (Option Str)) : List Str :=
  dictKeys [] (divs.map (divLang tt dflt))

end PcVerif.Langs
