/-
  `WebVTTWriter._convert_positioning` (C12, C13): cue settings from a layout.
-/
import PcVerif.Model.Geometry
namespace PcVerif.VttPos
open Geo Str

def sizeSub (a b : Size) : Except Err Size :=
  if a.unit = b.unit then .ok ⟨a.value - b.value, a.unit⟩ else .error .valueError

def alignName : Option HAlign → Str
  | none => "start".toList
  | some .left => "left".toList | some .center => "center".toList | some .right => "right".toList
  | some .start => "start".toList | some .end_ => "end".toList

structure Settings where
  align : Option Str
  position : Option Size
  line : Option Size
  size : Option Size
  deriving Repr

/-- the arithmetic after relativisation / fitting -/
def ofLayout (l : Layout) : Except Err Settings := do
  let left := l.origin.map (·.x)
  let top := l.origin.map (·.y)
  let width := l.extent.map (·.h)
  let (left, width, top) ← match l.padding with
    | none => pure (left, width, top)
    | some p =>
      -- `if padding.start and left_offset:` — sizes are always truthy
      let (left, width) ← match left with
        | some lo => do
          let lo' ← lo.add p.start
          let w' ← match width with
            | some w => (sizeSub w p.start).map some
            | none => pure none
          pure (some lo', w')
        | none => pure (left, width)
      let width ← match width with
        | some w => (sizeSub w p.end_).map some
        | none => pure none
      let top ← match top with
        | some t => (t.add p.before).map some
        | none => pure none
      pure (left, width, top)
  let al := alignName (match l.alignment with | some a => a.h | none => none)
  return { align := if al = "center".toList then none else some al, position := left, line := top, size := width }

def render (s : Settings) : Str :=
  (match s.align with | some a => " align:".toList ++ a | none => [])
  ++ (match s.position with | some z => " position:".toList ++ z.toStr | none => [])
  ++ (match s.line with | some z => " line:".toList ++ z.toStr | none => [])
  ++ (match s.size with | some z => " size:".toList ++ z.toStr | none => [])

/-- `_convert_positioning(layout)` -/
def convert (relativize fit : Bool) (w h : Nat) (lo : Option Layout) : Except Err Str :=
  match lo with
  | none => .ok []
  | some l =>
    if !l.truthy then .ok [] else
    match l.webvtt with
    | some raw => if !raw.isEmpty then .ok (' ' :: raw) else convertGeo l
    | none => convertGeo l
where
  isRelative (l : Layout) : Bool :=
    (match l.origin with | some o => o.x.unit == .pct && o.y.unit == .pct | none => true) &&
    (match l.extent with | some e => e.h.unit == .pct && e.v.unit == .pct | none => true) &&
    (match l.padding with | some p => p.before.unit == .pct && p.after.unit == .pct && p.start.unit == .pct && p.end_.unit == .pct | none => true)
  convertGeo (l : Layout) : Except Err Str :=
    if !relativize && !isRelative l then .ok [] else do
      let l1 ← if relativize then l.asPct w h else pure l
      let l2 ← if fit then l1.fit else pure l1
      let s ← ofLayout l2
      return render s

end PcVerif.VttPos
