/-
  Model of how the DFXP writer prints a layout as region attributes (`_convert_layout_to_attributes`,
  `_create_external_alignment`) and how the reader builds a layout from a region that carries such attributes
  (`LayoutInfoScraper.scrape_positioning_info` for a region without styles, `TwoDimensionalObject.from_xml_attribute`,
  `_create_internal_alignment`).  The alignment name tables and the default region's alignment are regenerated from the source.
-/
import PcVerif.Model.Geometry
import PcVerif.Generated.DfxpAlign
namespace PcVerif.DfxpLayout
open Geo Str

def HAlign.name : HAlign → String
  | .left => "LEFT" | .center => "CENTER" | .right => "RIGHT" | .start => "START" | .end_ => "END"
def VAlign.name : VAlign → String
  | .top => "TOP" | .center => "CENTER" | .bottom => "BOTTOM"
def hAll : List HAlign := [.left, .center, .right, .start, .end_]
def vAll : List VAlign := [.top, .center, .bottom]
def hOfName (n : String) : Option HAlign := hAll.find? (fun h => HAlign.name h == n)
def vOfName (n : String) : Option VAlign := vAll.find? (fun v => VAlign.name v == n)

/-- a chain of `if x == k: r = v` statements: the last matching one wins -/
def lookupLast (t : List (String × String)) (k : String) : Option String :=
  ((t.filter (fun e => e.1 == k)).getLast?).map (·.2)

/-- `_create_external_horizontal_alignment` -/
def hAttr : Option HAlign → Option Str
  | none => none
  | some h => (lookupLast Generated.dfxpExtH (HAlign.name h)).map String.toList
/-- `_create_external_vertical_alignment` -/
def vAttr : Option VAlign → Option Str
  | none => none
  | some v => (lookupLast Generated.dfxpExtV (VAlign.name v)).map String.toList

def truthyStr : Option Str → Option Str
  | some s => if s.isEmpty then none else some s
  | none => none

/-- `_create_external_alignment`: (`tts:textAlign`, `tts:displayAlign`) -/
def alignAttrs : Option Alignment → Option Str × Option Str
  | none => (none, none)
  | some a => (truthyStr (hAttr a.h), truthyStr (vAttr a.v))

def defaultAlignment : Alignment := ⟨hOfName Generated.dfxpDefaultAlignH, vOfName Generated.dfxpDefaultAlignV⟩

structure Attrs where
  origin : Option Str
  extent : Option Str
  padding : Option Str
  textAlign : Option Str
  displayAlign : Option Str
  deriving DecidableEq, Repr

/-- `if layout.alignment: … else: <the default region's alignment>` -/
def layoutAlignAttrs (a : Option Alignment) : Option Str × Option Str :=
  match a with
  | some a => alignAttrs (some a)
  | none => alignAttrs (some defaultAlignment)

/-- `_convert_layout_to_attributes` -/
def layoutAttrs (lo : Option Layout) : Attrs :=
  let d := alignAttrs (some defaultAlignment)
  match lo with
  | none => ⟨none, none, none, d.1, d.2⟩
  | some l =>
    if !l.truthy then ⟨none, none, none, d.1, d.2⟩
    else
      let a := layoutAlignAttrs l.alignment
      ⟨l.origin.map Point.toAttr, l.extent.map Stretch.toAttr, l.padding.map Padding.toAttr, a.1, a.2⟩

/-- `horizontal, vertical = attribute.split(' ')`, each through `Size.from_string` -/
def twoSizes (s : Str) : Except Err (Size × Size) :=
  match splitChar ' ' s with
  | [a, b] =>
    (match Size.fromString a with
     | .error e => .error e
     | .ok x => match Size.fromString b with
       | .error e => .error e
       | .ok y => .ok (x, y))
  | _ => .error .valueError

def pointFromAttr (s : Str) : Except Err Point :=
  match twoSizes s with | .ok (x, y) => .ok ⟨x, y⟩ | .error e => .error e
def stretchFromAttr (s : Str) : Except Err Stretch :=
  match twoSizes s with | .ok (x, y) => .ok ⟨x, y⟩ | .error e => .error e

/-- `_get_object_from_attribute`: absent or ignored value → `None`; a value the factory refuses → `CaptionReadSyntaxError` -/
def attrObj {α : Type} (v : Option Str) (factory : Str → Except Err α) (ignore : List Str) : Except Err (Option α) :=
  match v with
  | none => .ok none
  | some s =>
    if ignore.contains s then .ok none
    else match factory s with
      | .ok a => .ok (some a)
      | .error _ => .error .syntaxError

/-- `Alignment.from_horizontal_and_vertical_align` behind `_create_internal_alignment` -/
def internalAlign (ta da : Str) : Option Alignment :=
  if ta.isEmpty && da.isEmpty then none
  else
    let h := (lookupLast Generated.dfxpIntH (String.ofList ta)).bind hOfName
    let v := (lookupLast Generated.dfxpIntV (String.ofList da)).bind vOfName
    if h.isNone && v.isNone then none else some ⟨h, v⟩

def orDefault (v : Option Str) (d : Option Str) : Str :=
  match truthyStr v with
  | some s => s
  | none => match d with | some s => s | none => []

/-- `scrape_positioning_info` + `_extract_positioning_information` for a region that carries the attributes itself, in a document
    whose root element has no extent and whose element adds nothing -/
def readRegion (a : Attrs) : Except Err (Option Layout) :=
  match attrObj a.origin pointFromAttr ["auto".toList] with
  | .error e => .error e
  | .ok o => match attrObj a.extent stretchFromAttr ["auto".toList] with
    | .error e => .error e
    | .ok x => match attrObj a.padding Padding.fromAttr [] with
      | .error e => .error e
      | .ok p =>
        let al := internalAlign (orDefault a.textAlign (hAttr defaultAlignment.h)) (orDefault a.displayAlign (vAttr defaultAlignment.v))
        if o.isSome || x.isSome || p.isSome || al.isSome then .ok (some ⟨o, x, p, al, none⟩) else .ok none

end PcVerif.DfxpLayout
