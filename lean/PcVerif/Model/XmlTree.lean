/-
  Element trees as the DFXP / SAMI readers see them after parsing, and the conversion to caption nodes
  (`DFXPReader._convert_tag_to_node`, `SAMIReader._translate_tag`): text leaves through the leaf rule, <br> to a break,
  styled elements to a style-start node, their children, a style-end node (C04, C11).
-/
import PcVerif.Model.XmlText
namespace PcVerif.XmlTree
open XmlText

inductive XNode where
  | text : Str → XNode
  | br : XNode
  | styled : Flags → List XNode → XNode     -- DFXP <span ...>, SAMI <i>/<b>/<u>/<span style=...>
  | other : List XNode → XNode              -- any other element: only its children count

mutual
def XNode.nodes : XNode → List Node
  | .text s => match leafText s with | some t => [Node.text t] | none => []
  | .br => [Node.brk]
  | .styled f cs => Node.style true f :: (nodesList cs ++ [Node.style false f])
  | .other cs => nodesList cs
def nodesList : List XNode → List Node
  | [] => []
  | c :: cs => c.nodes ++ nodesList cs
end

/-- nesting depth after a node list, `none` if a style-end node occurs with nothing open -/
def depthAfter : Nat → List Node → Option Nat
  | d, [] => some d
  | d, .style true _ :: l => depthAfter (d + 1) l
  | d, .style false _ :: l => if d = 0 then none else depthAfter (d - 1) l
  | d, .text _ :: l => depthAfter d l
  | d, .brk :: l => depthAfter d l

/-- balanced and properly nested style nodes -/
def WellNested (l : List Node) : Prop := depthAfter 0 l = some 0

end PcVerif.XmlTree
