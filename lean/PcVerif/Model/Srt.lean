/-
  Model of `pycaption.srt` (C01–C04, C08): `_srttomicro`, `_find_text_line`, `SRTReader.read`,
  `SRTWriter._recreate_lang` / `write`.
-/
import PcVerif.Model.Caption
import PcVerif.Model.Format
namespace PcVerif.Srt
open Str

def mulH : Nat := Generated.srtMultipliers.getD 0 0
def mulM : Nat := Generated.srtMultipliers.getD 1 0
def mulS : Nat := Generated.srtMultipliers.getD 2 0
def mulMs : Nat := Generated.srtMultipliers.getD 3 0

/-- `SRTReader._srttomicro` -/
def toMicro (stamp : Str) : Except PErr Nat := do
  let ts := splitChar ':' stamp
  let h ← pyIdx ts 0
  let m ← pyIdx ts 1
  let s0 ← pyIdx ts 2
  let s := if s0.elem ',' then s0 else s0 ++ ",000".toList
  let ss := splitChar ',' s
  let sec ← pyIdx ss 0
  let ms ← pyIdx ss 1
  let hv ← pyInt h
  let mv ← pyInt m
  let sv ← pyInt sec
  let msv ← pyInt ms
  return hv * mulH + mv * mulM + sv * mulS + msv * mulMs

/-- `_find_text_line`: index scan with the `found` flag; `i` is `end_line`, fuel bounds the loop -/
def findTextLineAux (lines : List Str) : Nat → Nat → Bool → Nat
  | 0, i, _ => i + 1
  | fuel + 1, i, found =>
    match lines[i]? with
    | none => i + 1
    | some l =>
      if (strip l).isEmpty then findTextLineAux lines fuel (i + 1) true
      else if found then (i - 1) + 1
      else findTextLineAux lines fuel (i + 1) found

def findTextLine (start : Nat) (lines : List Str) : Nat :=
  findTextLineAux lines (lines.length + 1) start false

/-- the node-building loop over `lines[start+2 : end-1]` -/
def textNodes : List Node → List Str → List Node
  | acc, [] => acc
  | acc, l :: ls => if acc.isEmpty || l ≠ [] then textNodes (acc ++ [Node.text l, Node.brk]) ls else textNodes acc ls

def stripTiming (s : Str) : Str := stripChars [' ', '\r', '\n'] s

/-- main loop of `SRTReader.read` -/
def readLoop (lines : List Str) : Nat → Nat → List Caption → Except PErr (List Caption)
  | 0, _, acc => .ok acc
  | fuel + 1, start, acc =>
    match lines[start]? with
    | none => .ok acc
    | some idx =>
      if !isDigitStr idx then .ok acc
      else do
        let endLine := findTextLine start lines
        let tl ← pyIdx lines (start + 1)
        let timing := splitOn "-->".toList tl
        let a ← pyIdx timing 0
        let st ← toMicro (stripTiming a)
        let b ← pyIdx timing 1
        let en ← toMicro (stripTiming b)
        let body := (lines.take (endLine - 1)).drop (start + 2)
        let nodes := textNodes [] body
        let acc' := if nodes.isEmpty then acc else acc ++ [{ start := st, stop := en, nodes := nodes.dropLast }]
        readLoop lines fuel endLine acc'

/-- `SRTReader.read` (one language) -/
def read (content : Str) : Except PErr (List Caption) :=
  let lines := splitlines content
  match readLoop lines (lines.length + 1) 0 [] with
  | .error e => .error e
  | .ok [] => .error .noCaptions
  | .ok cs => .ok cs

/-! writer -/

/-- merge of captions on the exact same timestamp (`merged_captions[-1]` is replaced) -/
def mergeSame : List RCap → List RCap → List RCap
  | acc, [] => acc
  | acc, c :: cs =>
    match acc.getLast? with
    | some l =>
      if c.start = l.start ∧ c.stop = l.stop then
        mergeSame (acc.dropLast ++ [{ start := c.start, stop := c.stop, nodes := l.nodes ++ [Node.brk] ++ c.nodes }]) cs
      else mergeSame (acc ++ [c]) cs
    | none => mergeSame (acc ++ [c]) cs

def recreateLine (acc : Str) : Node → Str
  | .text s => acc ++ s ++ [' ']
  | .brk => acc ++ ['\n']
  | .style _ _ => acc

/-- `'\n'.join(line for line in s.split('\n') if line.strip())`: no line without a visible character stays inside a cue -/
def dropBlankLines (s : Str) : Str := join ['\n'] ((splitChar '\n' s).filter fun l => !(strip l).isEmpty)

def cueText (nodes : List Node) : Str := dropBlankLines (strip (nodes.foldl recreateLine []))

def recreateCaptions : Nat → List RCap → Str
  | _, [] => []
  | count, c :: cs =>
    ofNat count ++ '\n' :: (Fmt.formatTimestamp c.start ',').take 12 ++ " --> ".toList
      ++ (Fmt.formatTimestamp c.stop ',').take 12 ++ '\n' :: cueText c.nodes ++ "\n\n".toList
      ++ recreateCaptions (count + 1) cs

/-- `_recreate_lang`: `srt[:-1]` drops the final newline -/
def recreateLang (caps : List RCap) : Str := (recreateCaptions 1 (mergeSame [] caps)).dropLast

/-- `SRTWriter.write` -/
def write (langs : List (List RCap)) : Str := join "MULTI-LANGUAGE SRT\n".toList (langs.map recreateLang)

end PcVerif.Srt
