/-
  Model of `pycaption.geometry` (C13, C18): value types, the `__eq__` chains, hashes over abstract
  component hashes, `Size.from_string`, `Size.__str__`, `Padding.from_xml_attribute`,
  `as_percentage_of`, `fit_to_screen`.  Magnitudes are exact rationals (Python: floats, DESIGN §2.6).
-/
import PcVerif.Util.Str
import PcVerif.Generated.Geometry
namespace PcVerif.Geo
open Str

inductive Unit | px | em | pct | c | pt
  deriving DecidableEq, Repr

def Unit.text : Unit → Str
  | .px => "px".toList | .em => "em".toList | .pct => "%".toList | .c => "c".toList | .pt => "pt".toList

def Unit.all : List Unit := [.px, .em, .pct, .c, .pt]

inductive HAlign | left | center | right | start | end_
  deriving DecidableEq, Repr
inductive VAlign | top | center | bottom
  deriving DecidableEq, Repr

structure Size where
  value : Rat
  unit : Unit
  deriving DecidableEq, Repr

structure Point where
  x : Size
  y : Size
  deriving DecidableEq, Repr

structure Stretch where
  h : Size
  v : Size
  deriving DecidableEq, Repr

structure Padding where
  before : Size
  after : Size
  start : Size
  end_ : Size
  deriving DecidableEq, Repr

structure Alignment where
  h : Option HAlign
  v : Option VAlign
  deriving DecidableEq, Repr

structure Layout where
  origin : Option Point
  extent : Option Stretch
  padding : Option Padding
  alignment : Option Alignment
  webvtt : Option Str
  deriving DecidableEq, Repr

inductive Err | syntaxError | relativization | valueError
  deriving DecidableEq, Repr

/-! ### `__eq__` — `other and type(self) == type(other) and <components ==>`.
`other` may be `None` (modelled as `Option`); every geometry object is truthy. -/

def Size.pyEq (a : Size) : Option Size → Bool
  | none => false
  | some b => decide (a.value = b.value) && decide (a.unit = b.unit)

/-- Python `x == y` where either side may be `None` and the class defines the chain above -/
def optEq {τ : Type} (eq : τ → Option τ → Bool) : Option τ → Option τ → Bool
  | none, none => true
  | none, some b => eq b none        -- reflected `b.__eq__(None)`
  | some a, o => eq a o

def Point.pyEq (a : Point) : Option Point → Bool
  | none => false
  | some b => a.x.pyEq (some b.x) && a.y.pyEq (some b.y)

def Stretch.pyEq (a : Stretch) : Option Stretch → Bool
  | none => false
  | some b => a.h.pyEq (some b.h) && a.v.pyEq (some b.v)

def Padding.pyEq (a : Padding) : Option Padding → Bool
  | none => false
  | some b => a.before.pyEq (some b.before) && a.after.pyEq (some b.after)
      && a.start.pyEq (some b.start) && a.end_.pyEq (some b.end_)

def Alignment.pyEq (a : Alignment) : Option Alignment → Bool
  | none => false
  | some b => decide (a.h = b.h) && decide (a.v = b.v)

/-- `Layout.__eq__` (no `other and`, `webvtt_positioning` is not compared) -/
def Layout.pyEq (a b : Layout) : Bool :=
  optEq Point.pyEq a.origin b.origin && optEq Stretch.pyEq a.extent b.extent
    && optEq Padding.pyEq a.padding b.padding && optEq Alignment.pyEq a.alignment b.alignment

/-! ### `__hash__` — polynomials over component hashes.  `H` is Python's `hash` on ints, `hv`/`hu`/… the
hashes of floats, enum members and `None`; all abstract. -/

structure HashEnv where
  H : Int → Int
  hv : Rat → Int
  hu : Unit → Int
  hh : Option HAlign → Int
  hva : Option VAlign → Int
  hnone : Int

def Size.hash (e : HashEnv) (s : Size) : Int := e.H (e.hv s.value * 41 + e.hu s.unit * 43 + 47)
def Point.hash (e : HashEnv) (p : Point) : Int := e.H (p.x.hash e * 51 + p.y.hash e * 53 + 57)
def Stretch.hash (e : HashEnv) (s : Stretch) : Int := e.H (s.h.hash e * 59 + s.v.hash e * 61 + 67)
def Padding.hash (e : HashEnv) (p : Padding) : Int :=
  e.H (p.before.hash e * 19 + p.after.hash e * 23 + p.start.hash e * 29 + p.end_.hash e * 31 + 37)
def Alignment.hash (e : HashEnv) (a : Alignment) : Int := e.H (e.hh a.h * 83 + e.hva a.v * 89 + 97)
def optHash {τ : Type} (e : HashEnv) (f : τ → Int) : Option τ → Int
  | none => e.hnone
  | some a => f a
def Layout.hash (e : HashEnv) (l : Layout) : Int :=
  e.H (optHash e (Point.hash e) l.origin * 7 + optHash e (Stretch.hash e) l.extent * 11
    + optHash e (Padding.hash e) l.padding * 13 + optHash e (Alignment.hash e) l.alignment * 5 + 17)

/-! ### `Size.from_string` -/

def unitOfText (s : Str) : Option Unit := Unit.all.find? (fun u => u.text == s)

/-- `$`: end of string, or just before a final `'\n'` -/
def atDollar (s : Str) : Bool := s == [] || s == ['\n']

/-- value of `digits[.digits]` as an exact rational (ASCII digits only; others are out of model) -/
def decimalValue (ip fp : Str) : Rat :=
  mkRat (Int.ofNat (natOfDigits (ip ++ fp))) (10 ^ fp.length)

/-- try to match `\d+(\.\d+)?` at the start: integer part, fraction part, rest -/
def matchNumber (s : Str) : Option (Str × Str × Str) :=
  let (ip, r) := spanDecimals s
  if ip.isEmpty then none
  else match r with
    | '.' :: r' =>
      let (fp, r'') := spanDecimals r'
      if fp.isEmpty then some (ip, [], r) else some (ip, fp, r'')
    | _ => some (ip, [], r)

/-- alternatives of the unit group in pattern order (`px|em|%|c|pt`), first that lets `$` succeed.
    Because no unit text is a proper prefix of another that could also reach `$`, order is immaterial. -/
def matchUnitDollar (s : Str) : Option Unit :=
  Unit.all.find? (fun u => match dropPrefix? s u.text with
    | some r => atDollar r
    | none => false)

/-- `Size.from_string`.  The regex backtracks from `\d+(\.\d+)?` to `\d+` when the unit does not follow the
    fraction; since a unit never starts with '.', only the variant chosen by `matchNumber` can succeed.
    `none` in the value means digits outside ASCII (Python's `float` accepts them; out of model). -/
def Size.fromString (s : Str) : Except Err Size :=
  match matchNumber s with
  | some (ip, fp, r) =>
    (match matchUnitDollar r with
     | some u => .ok { value := decimalValue ip fp, unit := u }
     | none => if s == ['0'] || s == ['0', '\n'] then .ok { value := 0, unit := .px } else .error .syntaxError)
  | none => .error .syntaxError

/-! ### `Size.__str__` -/

def roundHalfEven (q : Rat) : Int :=
  let f := q.floor
  let r := q - f
  if r < 1/2 then f else if 1/2 < r then f + 1 else if f % 2 = 0 then f else f + 1

/-- digits of `n : Nat` hundredths: "i", "i.d" or "i.dd" (Python: `:.2f` then strip zeros and the point) -/
def hundredthsToStr (n : Nat) : Str :=
  let ip := ofNat (n / 100)
  let d1 := n % 100 / 10
  let d2 := n % 10
  if n % 100 = 0 then ip
  else if d2 = 0 then ip ++ '.' :: ofNat d1
  else ip ++ '.' :: (ofNat d1 ++ ofNat d2)

def Size.toStr (s : Size) : Str :=
  let n := roundHalfEven (s.value * 100)
  let body := if n < 0 then (if n.natAbs % 100 = 0 ∧ n.natAbs = 0 then hundredthsToStr 0 else '-' :: hundredthsToStr n.natAbs)
              else hundredthsToStr n.natAbs
  body ++ s.unit.text

def Point.toAttr (p : Point) : Str := p.x.toStr ++ ' ' :: p.y.toStr
def Stretch.toAttr (p : Stretch) : Str := p.h.toStr ++ ' ' :: p.v.toStr
/-- default `attribute_order = ('before', 'end', 'after', 'start')` -/
def Padding.toAttr (p : Padding) : Str :=
  p.before.toStr ++ ' ' :: p.end_.toStr ++ ' ' :: p.after.toStr ++ ' ' :: p.start.toStr

def mapM' {α β ε : Type} (f : α → Except ε β) : List α → Except ε (List β)
  | [] => .ok []
  | a :: l => match f a with
    | .error e => .error e
    | .ok b => match mapM' f l with
      | .error e => .error e
      | .ok bs => .ok (b :: bs)

/-- `Padding.from_xml_attribute`: `attribute.split(' ')`, each through `Size.from_string`, 1–4 values -/
def Padding.fromAttr (s : Str) : Except Err Padding :=
  match mapM' Size.fromString (splitChar ' ' s) with
  | .error e => .error e
  | .ok [a] => .ok ⟨a, a, a, a⟩
  | .ok [a, b] => .ok ⟨a, a, b, b⟩
  | .ok [a, b, c] => .ok ⟨a, c, b, b⟩
  | .ok [a, b, c, d] => .ok ⟨a, c, d, b⟩
  | .ok _ => .error .valueError

/-! ### relativization and fit-to-screen -/

/-- `Size.as_percentage_of` with exactly one reference dimension passed (`dim`; 0 = not supplied / falsy);
    `horizontal` tells which keyword it was (cells: 32 columns vs 15 rows). -/
def Size.asPct (s : Size) (dim : Nat) (horizontal : Bool) : Except Err Size :=
  if s.unit = .pct then .ok s
  else if dim = 0 then .error .relativization
  else
    let d : Rat := dim
    match s.unit with
    | .em => .ok ⟨s.value * Generated.emPx * Generated.pctFactor / d, .pct⟩
    | .pt => .ok ⟨s.value / Generated.ptDen * Generated.ptNum * Generated.pctFactor / d, .pct⟩
    | .px => .ok ⟨s.value * Generated.pctFactor / d, .pct⟩
    | .c => .ok ⟨s.value * Generated.pctFactor / (if horizontal then Generated.cellCols else Generated.cellRows), .pct⟩
    | .pct => .ok s

def Point.asPct (p : Point) (w h : Nat) : Except Err Point :=
  match p.x.asPct w true, p.y.asPct h false with
  | .ok x, .ok y => .ok ⟨x, y⟩
  | .error e, _ => .error e
  | _, .error e => .error e

def Stretch.asPct (p : Stretch) (w h : Nat) : Except Err Stretch :=
  match p.h.asPct w true, p.v.asPct h false with
  | .ok x, .ok y => .ok ⟨x, y⟩
  | .error e, _ => .error e
  | _, .error e => .error e

def Padding.asPct (p : Padding) (w h : Nat) : Except Err Padding :=
  match p.before.asPct h false, p.after.asPct h false, p.start.asPct w true, p.end_.asPct w true with
  | .ok a, .ok b, .ok c, .ok d => .ok ⟨a, b, c, d⟩
  | .error e, _, _, _ => .error e
  | _, .error e, _, _ => .error e
  | _, _, .error e, _ => .error e
  | _, _, _, .error e => .error e

def optAsPct {τ : Type} (f : τ → Nat → Nat → Except Err τ) (o : Option τ) (w h : Nat) : Except Err (Option τ) :=
  match o with
  | none => .ok none
  | some a => match f a w h with
    | .ok b => .ok (some b)
    | .error e => .error e

/-- `Layout.as_percentage_of` (origin, extent, padding in this order; webvtt_positioning is dropped) -/
def Layout.asPct (l : Layout) (w h : Nat) : Except Err Layout :=
  match optAsPct Point.asPct l.origin w h with
  | .error e => .error e
  | .ok o => match optAsPct Stretch.asPct l.extent w h with
    | .error e => .error e
    | .ok x => match optAsPct Padding.asPct l.padding w h with
      | .error e => .error e
      | .ok p => .ok { origin := o, extent := x, padding := p, alignment := l.alignment, webvtt := none }

/-- `Size.__add__` -/
def Size.add (a b : Size) : Except Err Size :=
  if a.unit = b.unit then .ok ⟨a.value + b.value, a.unit⟩ else .error .valueError

/-- `Layout.fit_to_screen` -/
def Layout.fit (l : Layout) : Except Err Layout :=
  match l.origin with
  | none => .ok l
  | some o =>
    let dh : Size := ⟨Generated.fitRight - o.x.value, .pct⟩
    let dv : Size := ⟨Generated.fitBottom - o.y.value, .pct⟩
    match l.extent with
    | none => .ok { origin := some o, extent := some ⟨dh, dv⟩, padding := l.padding, alignment := l.alignment, webvtt := none }
    | some e =>
      match o.x.add e.h, o.y.add e.v with
      | .ok bx, .ok by_ =>
        if bx.unit ≠ .pct then .error .valueError
        else
          let nh := if (Generated.fitRight : Rat) < bx.value then dh else e.h
          let nv := if (Generated.fitBottom : Rat) < by_.value then dv else e.v
          .ok { origin := some o, extent := some ⟨nh, nv⟩, padding := l.padding, alignment := l.alignment, webvtt := none }
      | .error er, _ => .error er
      | _, .error er => .error er

/-- `Layout.__bool__` -/
def Layout.truthy (l : Layout) : Bool :=
  l.origin.isSome || l.extent.isSome || l.padding.isSome || l.alignment.isSome
    || (match l.webvtt with | some s => !s.isEmpty | none => false)

/-- `BaseWriter._relativize_and_fit_to_screen` -/
def relativizeAndFit (relativize fit : Bool) (w h : Nat) (lo : Option Layout) : Except Err (Option Layout) :=
  match lo with
  | none => .ok none
  | some l =>
    if !l.truthy then .ok (some l)
    else
      match (if relativize then l.asPct w h else .ok l) with
      | .error e => .error e
      | .ok l1 =>
        if fit then (match l1.fit with | .ok l2 => .ok (some l2) | .error e => .error e)
        else .ok (some l1)

end PcVerif.Geo
