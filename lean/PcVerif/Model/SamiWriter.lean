/-
  Model of the SAMI writer's SYNC planning (C02, C14): `_recreate_p_tag`, `_recreate_blank_tag`,
  `_recreate_sync`, `_find_closest_sync` and the `last_time` state.  The body is the ordered list of
  <sync> blocks; a <p> is (language index, blank?, caption index within its language).
-/
import PcVerif.Model.Caption
namespace PcVerif.SamiW

structure PEntry where
  lang : Nat
  blank : Bool
  cap : Nat
  deriving DecidableEq, Repr

structure Sync where
  start : Nat
  ps : List PEntry
  deriving DecidableEq, Repr

abbrev Body := List Sync

/-- `caption.start // 1000` as an int -/
def ms (t : Rat) : Nat := (t / 1000).floor.toNat

/-- index of the first sync with this start (`sami.find("sync", start=time)`) -/
def findIdx (body : Body) (time : Nat) : Option Nat := body.findIdx? (fun s => s.start = time)

/-- index (in document order) of the last sync with start < time (`find_all(..)[-1]`): a scan that remembers the last hit -/
def lastEarlierAux (time : Nat) : Body → Nat → Option Nat → Option Nat
  | [], _, acc => acc
  | s :: rest, i, acc => lastEarlierAux time rest (i + 1) (if s.start < time then some i else acc)

def lastEarlier (body : Body) (time : Nat) : Option Nat := lastEarlierAux time body 0 none

def firstLater (body : Body) (time : Nat) : Option Nat := body.findIdx? (fun s => time < s.start)

def insertAt (body : Body) (i : Nat) (s : Sync) : Body := body.take i ++ s :: body.drop i

/-- `_recreate_sync`: the body with the sync present, and where it is (`none`: created but attached nowhere) -/
def recreateSync (body : Body) (primary : Bool) (time : Nat) : Body × Option Nat :=
  if primary then (body ++ [⟨time, []⟩], some body.length)
  else match findIdx body time with
    | some i => (body, some i)
    | none =>
      match lastEarlier body time with
      | some i => (insertAt body (i + 1) ⟨time, []⟩, some (i + 1))
      | none =>
        match firstLater body time with
        | some j => (insertAt body j ⟨time, []⟩, some j)
        | none => (body ++ [⟨time, []⟩], some body.length)   -- no block yet: appended

def appendP (body : Body) (idx : Option Nat) (p : PEntry) : Body :=
  match idx with
  | none => body
  | some i => body.modify i (fun s => { s with ps := s.ps ++ [p] })

/-- one caption: `_recreate_p_tag` -/
def recreateP (body : Body) (lastTime : Option Nat) (lang : Nat) (primary : Bool) (cap : Nat) (start stop : Rat) :
    Body × Option Nat :=
  let time := ms start
  let body :=
    match lastTime with
    | some lt =>
      if time ≠ lt then
        let (b, i) := recreateSync body primary lt
        appendP b i ⟨lang, true, cap⟩
      else body
    | none => body
  let (b, i) := recreateSync body primary time
  (appendP b i ⟨lang, false, cap⟩, some (ms stop))

def langLoop (lang : Nat) (primary : Bool) : Body → Option Nat → Nat → List (Rat × Rat) → Body
  | body, _, _, [] => body
  | body, lt, k, (a, b) :: cs =>
    let (body', lt') := recreateP body lt lang primary k a b
    langLoop lang primary body' lt' (k + 1) cs

def writeLoop : Body → Nat → List (List (Rat × Rat)) → Body
  | body, _, [] => body
  | body, li, caps :: rest => writeLoop (langLoop li (li = 0) body none 0 caps) (li + 1) rest

/-- the <sync> blocks written for a caption set (languages in order, first one is primary) -/
def plan (langs : List (List (Rat × Rat))) : Body := writeLoop [] 0 langs

/-! specification for one language (C02): per cue, a blank sync at the previous cue's end millisecond unless
    this cue starts in that millisecond, then the cue's own sync; nothing after the last cue -/
def specPrimary (lang : Nat) : Option Nat → Nat → List (Rat × Rat) → Body
  | _, _, [] => []
  | prevEnd, k, (a, b) :: cs =>
    (match prevEnd with
     | some e => if ms a ≠ e then [⟨e, [⟨lang, true, k⟩]⟩] else []
     | none => [])
    ++ ⟨ms a, [⟨lang, false, k⟩]⟩ :: specPrimary lang (some (ms b)) (k + 1) cs

end PcVerif.SamiW
