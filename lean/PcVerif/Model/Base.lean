/-
  Model of `pycaption.base`: `CaptionSet.adjust_caption_timing`, `merge_concurrent_captions`, `merge` (C19).
  Captions are abstract: times are rationals (Python ints, floats or Fractions), nodes are opaque values
  of a type `α` with one distinguished line-break node.
-/
namespace PcVerif.Base

structure Cap (α : Type) where
  start : Rat
  stop : Rat
  nodes : List α
  deriving DecidableEq, Repr

variable {α : Type}

def Cap.span (c : Cap α) : Rat × Rat := (c.start, c.stop)

/-- `merge(captions)`: nodes of all captions in order, a break before each caption once something has
    been collected; start/end of the first caption.  (Python raises IndexError on `[]`, never called so.) -/
def mergeNodes (brk : α) : List α → List (Cap α) → List α
  | acc, [] => acc
  | acc, c :: cs => mergeNodes brk ((if acc.isEmpty then acc else acc ++ [brk]) ++ c.nodes) cs

def merge1 (brk : α) (c : Cap α) (cs : List (Cap α)) : Cap α :=
  { start := c.start, stop := c.stop, nodes := mergeNodes brk [] (c :: cs) }

def merge (brk : α) : List (Cap α) → Option (Cap α)
  | [] => none
  | c :: cs => some (merge1 brk c cs)

def pushMerged (brk : α) (merged : List (Cap α)) (conc : List (Cap α)) : List (Cap α) :=
  match merge brk conc with
  | some m => merged ++ [m]
  | none => merged

/-- the loop of `merge_concurrent_captions` for one language:
    state = (last_caption, concurrent_captions, merged_captions) -/
def mergeLoop (brk : α) : Option (Cap α) → List (Cap α) → List (Cap α) → List (Cap α) → List (Cap α)
  | _, conc, merged, [] => if conc.isEmpty then merged else pushMerged brk merged conc
  | last, conc, merged, c :: cs =>
    match last with
    | some l =>
      if c.span = l.span then mergeLoop brk (some c) (conc ++ [c]) merged cs
      else mergeLoop brk (some c) [c] (pushMerged brk merged conc) cs
    | none => mergeLoop brk (some c) [c] merged cs

/-- one language of `merge_concurrent_captions`; an empty result leaves the language untouched -/
def mergeConcurrent (brk : α) (cs : List (Cap α)) : List (Cap α) :=
  let m := mergeLoop brk none [] [] cs
  if m.isEmpty then cs else m

/-- `adjust_caption_timing` for one language: the loop with its `out_captions` accumulator -/
def adjustLoop (skew off : Rat) : List (Cap α) → List (Cap α) → List (Cap α)
  | out, [] => out
  | out, c :: cs =>
    let c' : Cap α := { c with start := c.start * skew + off, stop := c.stop * skew + off }
    if 0 ≤ c'.start then adjustLoop skew off (out ++ [c']) cs else adjustLoop skew off out cs

def adjust (skew off : Rat) (cs : List (Cap α)) : List (Cap α) := adjustLoop skew off [] cs

end PcVerif.Base
