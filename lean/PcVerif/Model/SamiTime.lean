/-
  Model of `SAMIReader._translate_lang`'s timing (C01): per language, the `<p>` elements in document order as
  (sync start in ms, has visible text); ends are back-filled, the last cue gets 4 s.
-/
import PcVerif.Model.Caption
import PcVerif.Generated.Sami
namespace PcVerif.Sami

/-- walk the captions from the newest backwards while their end is still 0 -/
def backfillRev (start : Int) : List (Int × Int) → List (Int × Int)
  | [] => []
  | (s, e) :: rest =>
    if e ≠ 0 then (s, e) :: rest
    else (if s ≠ start then (s, start) else (s, e)) :: backfillRev start rest

def backfill (start : Int) (caps : List (Int × Int)) : List (Int × Int) := (backfillRev start caps.reverse).reverse

/-- the loop: state = (captions so far, last `milliseconds`) -/
def loop : List (Int × Int) → Int → List (Nat × Bool) → List (Int × Int) × Int
  | caps, ms, [] => (caps, ms)
  | caps, _, (m, hasText) :: ps =>
    let start : Int := m * 1000
    let caps := backfill start caps
    loop (if hasText then caps ++ [(start, 0)] else caps) m ps

def tailMs : Nat := Generated.samiTailMs

/-- every trailing caption that still has no end lasts `tailMs` after the last sync time -/
def tailRev (e : Int) : List (Int × Int) → List (Int × Int)
  | [] => []
  | (s, en) :: rest => if en ≠ 0 then (s, en) :: rest else (s, e) :: tailRev e rest

def translateLang (ps : List (Nat × Bool)) : List (Int × Int) :=
  let (caps, ms) := loop [] 0 ps
  (tailRev ((ms + tailMs) * 1000) caps.reverse).reverse

end PcVerif.Sami
