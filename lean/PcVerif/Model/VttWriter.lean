/-
  Model of `WebVTTWriter.write` / `_convert_caption` for captions that carry no layout and no caption-level style
  (C02, C03, C08): header, then per caption one cue per layout group — here a single one — `start --> end`, the text.
-/
import PcVerif.Model.TextWriters
import PcVerif.Model.Format
namespace PcVerif.VttW
open Str TextW

def toL : Node → LNode
  | .text s => .text s 0
  | .brk => .brk
  | .style st f => .style st f

/-- `_convert_caption` without cue settings and without cue-level style tags -/
def convPlain (c : RCap) : Str :=
  (vttGroups (c.nodes.map toL)).flatMap fun g =>
    Fmt.vttTimestamp c.start ++ " --> ".toList ++ Fmt.vttTimestamp c.stop ++ '\n' :: g.1 ++ ['\n']

/-- `WebVTTWriter.write` (one language) -/
def writePlain (caps : List RCap) : Str := "WEBVTT\n\n".toList ++ join ['\n'] (caps.map convPlain)

end PcVerif.VttW
