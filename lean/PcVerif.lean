import PcVerif.Util.Str
import PcVerif.Util.Proto
import PcVerif.Ops
import PcVerif.Props.C20
import PcVerif.Props.C19
import PcVerif.Props.C18
import PcVerif.Props.C13
import PcVerif.Props.C01
