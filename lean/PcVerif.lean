import PcVerif.Util.Str
import PcVerif.Util.Proto
import PcVerif.Ops
import PcVerif.Props.C20
import PcVerif.Props.C19
