#!/bin/sh
# MANIFEST.setup_cmd: build the framework from files on disk only (offline).
set -e
cd "$(dirname "$0")"
/venv/bin/python translate/gen_lean.py
cd lean
lake build PcVerif pcdriver
