"""Pure re-statement of pycaption's SCC reader (simulate_roll_up=False), written from the
code-reading notes, used to validate the planned Lean model shape.  State is explicit; the
only aliasing kept is by index (stash entries referenced by last_batch / still_editing)."""
import re
from fractions import Fraction as Fr
from pycaption.scc import constants as K

TEXT, BRK, ION, IOFF, REPOS = 0, 1, 2, 3, 4
FRAME = Fr(1001000, 30)

def is_pac(w):
    return w[2:] in K.PAC_BYTES_TO_POSITIONING_MAP.get(w[:2], {})

# ---------------- tracker
def tr_new(): return dict(pos=[], brk=False, rep=False, lastcol=None, dflt=(14, 0))
def tr_cur(t): return t['pos'][0] if t['pos'] else t['dflt']
def tr_update(t, p):
    t = dict(t); t['dflt'] = p
    if not t['pos']:
        t['pos'] = [p]; return t
    cur = t['pos'][-1]; row, col = cur
    if t['brk']: col = t['lastcol']
    nr, nc = p
    is_tab = nr == row and col + 1 <= nc <= col + 3
    if nr == row + 1:
        t['pos'] = t['pos'] + [(nr, col)]; t['brk'] = True; t['lastcol'] = nc
    elif t['brk'] and is_tab: pass
    elif p == cur: pass
    else:
        t['pos'] = [p]
        if not is_tab: t['rep'] = True
    return t

# ---------------- creator (buffer): coll = list of [kind, text, pos]; last_style in {None,'on','off'}
def cr_new(): return dict(coll=[], last=None)
def cr_empty(c): return not any(n[1] for n in c['coll'])
def prev_text_idx(c):
    for i in range(len(c['coll']) - 1, -1, -1):
        n = c['coll'][i]
        if n[0] == TEXT and n[1]: return i
    return None
def add_chars(c, t, chars):
    c = dict(c, coll=[list(n) for n in c['coll']]); t = dict(t)
    if not chars: return c, t
    cur = tr_cur(t)
    coll = c['coll']
    if coll and coll[-1][0] == TEXT and not t['rep']:
        node = coll[-1]
    else:
        node = [TEXT, None, cur]; coll.append(node)
    if t['brk']:
        coll.append([BRK, None, cur]); t['brk'] = False
        node = [TEXT, "", cur]; coll.append(node)
        if t['rep']: t['rep'] = False
    elif t['rep']:
        coll.append([REPOS, None, cur]); node = [TEXT, "", cur]; coll.append(node); t['rep'] = False
    node[1] = (node[1] or "") + "".join(chars)
    return c, t
def has_break_before(coll):
    for n in reversed(coll):
        if n[0] == TEXT: return False
        if n[0] == BRK: return True
    return False
def backspace(c, word):
    i = prev_text_idx(c)
    if i is None: return c
    c = dict(c, coll=[list(n) for n in c['coll']])
    node = c['coll'][i]; last = node[1][-1]
    if (word in K.EXTENDED_CHARS and last not in K.EXTENDED_CHARS.values()) or word == "94a1":
        node[1] = node[1][:-1]
    return c
def interpret(c, t, cmd, nxt):
    c = dict(c, coll=[list(n) for n in c['coll']]); t = dict(t)
    # positioning
    pos = None; is_off = False
    if cmd in K.PAC_TAB_OFFSET_COMMANDS:
        d = t['dflt']; pos = (d[0], d[1] + K.PAC_TAB_OFFSET_COMMANDS[cmd]); is_off = True
    elif is_pac(cmd):
        pos = K.PAC_BYTES_TO_POSITIONING_MAP[cmd[:2]][cmd[2:]]
    if pos is not None and not (is_off and has_break_before(c['coll'])):
        t = tr_update(t, pos)
    if cmd == "94a1": c = backspace(c, "94a1")
    coll = c['coll']
    if cmd in K.BACKGROUND_COLOR_CODES:
        if coll and coll[-1][0] == TEXT and coll[-1][1][-1].isspace():
            coll[-1][1] = coll[-1][1][:-1]
    if cmd in K.STYLE_SETTING_COMMANDS:
        cur = tr_cur(t)
        if cmd in K.ITALICS_COMMANDS:
            if c['last'] in (None, 'off'):
                if t['brk']:
                    coll.append([BRK, None, cur]); t['brk'] = False
                coll.append([ION, None, cur]); c['last'] = 'on'
        else:
            if c['last'] == 'on':
                coll.append([IOFF, None, tr_cur(t)]); c['last'] = 'off'
                if t['brk']:
                    coll.append([BRK, None, cur]); t['brk'] = False
    punct = ["ae", "a1", "bf", "2c"]
    next_p = bool(nxt) and nxt[:2] in punct
    i = prev_text_idx(c)
    prev_break = i is not None and any(n[0] == BRK for n in coll[i:])
    if (cmd in K.MID_ROW_CODES and i is not None and not prev_break
            and not coll[i][1][-1].isspace() and cmd not in K.PAC_TAB_OFFSET_COMMANDS and not next_p):
        if c['last'] == 'off':
            c, t = add_chars(c, t, [" "])
        else:
            c['coll'][i][1] += " "
    return c, t

# ---------------- italics passes
def fmt_italics(coll):
    coll = [list(n) for n in coll]
    out = []; can = False
    for n in coll:                                  # skip initial off
        if n[0] in (ION, IOFF):
            if n[0] == ION: can = True; out.append(n)
            elif can: out.append(n)
        else: out.append(n)
    out = [n for n in out if not (n[0] == TEXT and not n[1])]
    res = []; st = None
    for n in out:                                   # redundant
        if n[0] in (ION, IOFF):
            on = n[0] == ION
            if st is None:
                st = on
                if on: res.append(n)
                continue
            if on is st: continue
            st = on
        res.append(n)
    out = res; res = []; on = False; last_on = None
    for n in out:                                   # close before repositioning
        if n[0] == ION: on = True; last_on = n
        if n[0] == IOFF: on = False
        if n[0] == REPOS and on:
            res.append([IOFF, None, last_on[2]]); res.append(n); res.append([ION, None, n[2]]); continue
        res.append(n)
    out = res; on = False; last_on = None
    for n in out:
        if n[0] == ION: on = True; last_on = n
        if n[0] == IOFF: on = False
    if on: out = out + [[IOFF, None, last_on[2]]]
    res = []; tc = None                             # remove on,off
    for n in out:
        if n[0] == ION: tc = n; continue
        elif n[0] == IOFF:
            if tc: tc = None; continue
        else:
            if tc: res.append(tc); tc = None
        res.append(n)
    out = res; res = []; tc = None                  # remove off,on
    for n in out:
        if n[0] == IOFF: tc = n; continue
        elif n[0] == ION:
            if tc: tc = None; continue
        else:
            if tc: res.append(tc); tc = None
        res.append(n)
    if tc: res.append(tc)
    out = res
    for i, n in enumerate(out):
        if i > 0 and n[0] == BRK and out[i-1][0] == TEXT and out[i-1][1]:
            out[i-1][1] = out[i-1][1].rstrip()
    if out[-1][0] == TEXT: out[-1][1] = out[-1][1].rstrip()
    return out

# ---------------- stash
def store(S, c, start, end=0):
    """create_and_store; S = dict(stash=[caps], last_batch=[idx], editing=[idx])"""
    if cr_empty(c): return S, c
    nodes = fmt_italics(c['coll'])
    # NOTE: _format_italics mutates node text in place -> reflect in creator
    caps = [dict(start=start, end=end, nodes=[], layout=None)]
    for n in nodes:
        k, txt, pos = n
        if k == TEXT and not txt: continue
        if k == REPOS: caps.append(dict(start=start, end=end, nodes=[], layout=None))
        elif k == BRK: caps[-1]['nodes'].append(('B', None, pos))
        elif k == ION: caps[-1]['nodes'].append(('S', True, pos))
        elif k == IOFF: caps[-1]['nodes'].append(('S', False, pos))
        elif k == TEXT: caps[-1]['nodes'].append(('T', txt, pos)); caps[-1]['layout'] = pos
    S = dict(S, stash=list(S['stash']))
    base = len(S['stash'])
    # editing refers to ALL new caps (even empty ones, which are not in the stash) -> keep objects
    appendable = [cp for cp in caps if cp['nodes']]
    # _update_last_batch
    if appendable:
        new = appendable[0]
        lb = [S['stash'][i] for i in S['last_batch']]
        if lb and (lb[-1]['end'] == 0 or new['start'] - lb[-1]['end'] < 5 * FRAME + 1):
            for i in S['last_batch']:
                S['stash'][i] = dict(S['stash'][i], end=new['start'])
    S['last_batch'] = list(range(base, base + len(appendable)))
    S['stash'].extend(appendable)
    S['editing'] = list(S['last_batch'])      # empty caps in editing are unobservable
    return S, c
def correct_last(S, end_time):
    S = dict(S, stash=list(S['stash']))
    for i in S['editing']: S['stash'][i] = dict(S['stash'][i], end=end_time)
    return S

# ---------------- reader
def read(content, offset=0):
    lines = content.splitlines()
    R = dict(S=dict(stash=[], last_batch=[], editing=[]), tr=tr_new(), last_cmd="", dbl=False,
             buf=dict(pop=cr_new(), paint=cr_new(), roll=cr_new()), active='pop', queue=[], time=0,
             tc="00:00:00;00", frames=0, off=Fr(offset) * 1000000)
    def now():
        stamp = R['tc'][:-2] + str(int(R['tc'][-2:]) + R['frames'])
        assert re.match(r"\d{2}:\d{2}:\d{2}[:;]\d{1,2}", stamp)
        k = Fr(1) if ';' in stamp else Fr(1001, 1000)
        p = stamp.replace(';', ':').split(':')
        secs = int(p[0]) * 3600 + int(p[1]) * 60 + int(p[2]) + Fr(int(p[3]), 30)
        us = secs * k * 1000000 - R['off']
        return us if us >= 0 else Fr(0)
    def flush(old):
        if old == 'pop':
            if R['queue']: pop_on()
        elif old == 'roll':
            if not cr_empty(R['buf']['roll']): roll_up()
        elif old == 'paint':
            if not cr_empty(R['buf']['paint']):
                R['S'], _ = store(R['S'], R['buf']['paint'], R['time']); R['buf'][R['active']] = cr_new()
    def set_active(k):
        if k != R['active']: flush(R['active'])
        R['active'] = k
    def pop_on(end=0):
        cue = R['queue'].pop(0)
        R['S'], _ = store(R['S'], cue[0], cue[1], end)
    def roll_up():
        R['S'], _ = store(R['S'], R['buf'][R['active']], R['time']); R['buf'][R['active']] = cr_new()
        R['time'] = now(); R['S'] = correct_last(R['S'], R['time'])
    def handle_double(w):
        dt = (w != "94a1" and w in K.COMMANDS) or is_pac(w) or w in K.SPECIAL_CHARS
        if R['dbl']: dt = dt or w in K.EXTENDED_CHARS or w == "94a1"
        if w in K.CUE_STARTING_COMMAND and w != R['last_cmd']: R['dbl'] = False
        if dt and w == R['last_cmd']:
            if w in K.CUE_STARTING_COMMAND: R['dbl'] = True
            R['last_cmd'] = ""; return True
        elif is_pac(w) and w in R['last_cmd']:
            R['last_cmd'] = ""; return True
        elif w in K.PAC_TAB_OFFSET_COMMANDS:
            if is_pac(R['last_cmd']):
                R['last_cmd'] += " " + w; return False
            return True
        R['last_cmd'] = w; return False
    def command(w, nxt):
        B = R['buf']
        if w == "9420": set_active('pop')
        elif w == "9429":
            set_active('paint')
            if not cr_empty(B['paint']):
                R['S'], _ = store(R['S'], B['paint'], R['time']); B['paint'] = cr_new()
            R['time'] = now()
        elif w in ("9425", "9426", "94a7"):
            set_active('roll')
            if not cr_empty(B['roll']):
                R['S'], _ = store(R['S'], B['roll'], R['time']); B['roll'] = cr_new()
            R['time'] = now()
        elif w == "94ae": B[R['active']] = cr_new()
        elif w == "942f":
            R['time'] = now()
            if R['queue']: pop_on(end=R['time'])
            if cr_empty(B[R['active']]): return
            R['queue'].append((B[R['active']], R['time']))     # deepcopy == value copy here
            B[R['active']] = cr_new()
        elif w == "94ad":
            if not cr_empty(B[R['active']]): roll_up()
        elif w == "942c" and R['queue']:
            pop_on(end=now())
        else:
            B[R['active']], R['tr'] = interpret(B[R['active']], R['tr'], w, nxt)
    for line in lines[1:]:
        if line.strip() == "": continue
        m = re.compile(r"([0-9:;]*)([\s\t]*)((.)*)").findall(line.lower())
        R['tc'] = m[0][0]; R['frames'] = 0
        words = m[0][2].split(" ")
        for idx, w in enumerate(words):
            w = w.strip()
            if len(w) != 4: continue
            nxt = words[idx + 1] if idx + 1 < len(words) else None
            if handle_double(w):
                R['frames'] += 1; continue
            B = R['buf']; a = R['active']
            if w in K.COMMANDS or is_pac(w): command(w, nxt)
            elif w in K.SPECIAL_CHARS: B[a], R['tr'] = add_chars(B[a], R['tr'], [K.SPECIAL_CHARS[w]])
            elif w in K.EXTENDED_CHARS:
                B[a] = backspace(B[a], w); B[a], R['tr'] = add_chars(B[a], R['tr'], [K.EXTENDED_CHARS[w]])
            else:
                b1, b2 = w[:2], w[2:]
                if b1 in K.CHARACTERS and b2 in K.CHARACTERS:
                    B[a], R['tr'] = add_chars(B[a], R['tr'], [K.CHARACTERS[b1], K.CHARACTERS[b2]])
            R['frames'] += 1
    flush(R['active'])
    caps = [dict(c) for c in R['S']['stash']]
    # 4 s tail
    for c in reversed(caps):
        if c['end']: break
        c['end'] = c['start'] + 4000000
    return caps
