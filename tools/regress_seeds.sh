#!/bin/bash
# run every seeded change against its property's quick check (VERIF_SEED, default 0); one summary line per change
cd "$(dirname "$0")/.."
out=${1:-/tmp/seed_regress.txt}
: > $out
for d in seeded/C*-m*; do
  id=$(basename $d); prop=${id%%-*}
  r=$(tools/try_seed.sh $PWD/$d/patch.diff $prop 2>&1 | tail -1)
  echo "$id $r" >> $out
done
cat $out
