#!/bin/bash
# run every claimed quick check on the clean tree (several in parallel), summarise
cd "$(dirname "$0")/.."
test -z "$(git -C /repo status --porcelain)" || { echo "/repo is dirty"; exit 1; }
SEED=${VERIF_SEED:-0}
ids=$(python3 -c "import json;print(' '.join(c['property_id'] for c in json.load(open('MANIFEST.json'))['checks']))")
mkdir -p /tmp/pcv_runall
for id in $ids; do
  ( VERIF_SEED=$SEED ./check $id --tier ${1:-quick} > /tmp/pcv_runall/$id.log 2>&1; echo "$id rc=$? $(tail -1 /tmp/pcv_runall/$id.log)" ) &
  # at most 4 at a time
  while [ $(jobs -r | wc -l) -ge 4 ]; do sleep 0.5; done
done
wait
