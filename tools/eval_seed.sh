#!/bin/bash
# usage: tools/eval_seed.sh <Cxx> <k> [check ids ...]
# 1. confirm the seeded change in its scratch worktree (tests still pass; demo fails with / passes without the change)
# 2. apply it to /repo, run the given checks (default: the property's own), undo
cd "$(dirname "$0")/.."
id=$1; k=$2; shift 2
checks=${@:-$id}
wt=/tmp/wt/$id; sd=/tmp/seeds/$id
git -C $wt checkout -q -- . 2>/dev/null
base=$(cd $wt && PYTHONPATH=$wt /venv/bin/python $sd/demo$k.py >/dev/null 2>&1; echo $?)
git -C $wt apply $sd/mutant$k.diff || { echo "$id m$k: patch does not apply in worktree"; exit 2; }
tests=$(cd $wt && /venv/bin/python -m pytest -q -p no:cacheprovider --continue-on-collection-errors 2>&1 | tail -1 | grep -o "[0-9]* passed")
mut=$(cd $wt && PYTHONPATH=$wt /venv/bin/python $sd/demo$k.py >/dev/null 2>&1; echo $?)
git -C $wt checkout -q -- .
echo "$id m$k: tests='$tests' demo_clean_exit=$base demo_mutant_exit=$mut"
tools/try_seed.sh $sd/mutant$k.diff $checks
