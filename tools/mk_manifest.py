#!/venv/bin/python
"""writes MANIFEST.json from the table below (kept in one place so that it stays valid)"""
import json, os, subprocess
HERE = os.path.dirname(os.path.dirname(os.path.abspath(__file__)))
ALL = ["C%02d" % i for i in range(1, 21)]

NOTE_COMMON = ("Trusted: Lean 4.33 kernel; axioms ⊆ {propext, Classical.choice, Quot.sound} audited per theorem on every run; "
               "translate/gen_lean.py (tables, constants, pattern strings regenerated from /repo each run); the hand-written model is tied to the "
               "implementation by differential execution (sampled), not by proof. ")

CLAIMED = {
 "C07": dict(
   text=("Lean theorems about a model of RegionCreator and of the escaper: generated region ids r0, r1, ... are pairwise distinct and never equal the default "
         "region id 'bottom' (region_ids_distinct, via Nat.repr injectivity); the ids actually handed out skip every id a style of the caption set uses, are "
         "pairwise distinct, and the default region's id is adapted until it is free as well (nextFree_free, fresh_ids_spec, region_map_ids, "
         "default_region_id_free - the skipping loops are bounded by a pigeonhole argument; the id supply is tied to RegionCreator by correspondence); every id assigned to an element is the default region or the id of a region "
         "created for a layout of the document (region_refs_resolve), after cleanup every defined region is referenced (regions_all_referenced), escaped text "
         "contains no '<' or '>' so content cannot open or close markup (escape_content_wf); default ids regenerated and pinned. Execution: sets returned by "
         "every reader (incl. SCC programs) and API-built sets with XML metacharacters in texts, style values, class names and language codes, written by the "
         "three DFXP writers under all option combinations and force=, parsed by lxml without recovery and checked for tt/div/p structure, reference "
         "resolution, id uniqueness, unused regions."),
   ref="§3 C07", technique="Lean 4 proof over the region/id/escape models + strict-XML-parser oracle on writer output",
   note=NOTE_COMMON + "Well-formedness of the whole serialised document (bs4 prettify with the attribute-escaping formatter) is judged by lxml, not proved; class names that are not XML names are accepted by lxml's well-formedness check and not examined further."),
 "C12": dict(
   text=("Lean theorems over exact rationals: for a percentage layout the WebVTT settings are position = x + left padding, line = y + top padding, "
         "size = width - left - right padding (vtt_settings_arith, vtt_settings_no_padding; partial layouts as the writer computes them: origin only - position and line, no size -, no origin - no position, no line, size = width minus the right padding only -, an absolute left edge with a percentage padding is refused rather than added up: vtt_settings_origin_only, vtt_settings_no_origin, vtt_settings_mixed_units_refused), align is omitted exactly for centred text and an absent alignment "
         "means start (vtt_align_names), cue settings read from a WebVTT file are written back verbatim whatever the writer options (vtt_settings_verbatim). "
         "The executable model of _convert_positioning (with relativization and fit-to-screen from C13) is compared with the writer's timing lines; an "
         "independent denotation checks the parsed settings; layout groups give separate cues with equal times. DFXP: for EVERY layout with non-negative "
         "sizes (any units, any decimals, any parts absent) the reader model builds from the region attributes the writer model prints (tts:origin / extent / "
         "padding / textAlign / displayAlign; alignment name tables regenerated from the source statement by statement) the same layout, sizes rounded half-even "
         "to hundredths, absent alignment parts start / after (region_attrs_roundtrip), exactly for sizes with at most two decimals "
         "(region_attrs_roundtrip_exact), all 24 alignment combinations (alignment_attrs_roundtrip, default_alignment_pinned); a layout that occurs in the "
         "document is assigned the region made for exactly it, never the fallback, and no two layouts share a region (layout_gets_own_region, over the C07 "
         "region-map model). Both directions of the attribute model are compared with _convert_layout_to_attributes and with DFXPReader on generated and "
         "hand-made (malformed) attribute values; plus write + read of whole caption sets with layouts at language / caption / node level under relativize / "
         "fit options, effective layout per visible character."),
   ref="§3 C12", technique="Lean 4 proof (rational arithmetic, print/parse of sizes, case analysis) + correspondence on cue settings and region attributes + DFXP round-trip oracle",
   note=NOTE_COMMON + "The path from a caption element to its region (xml:id lookup, style chains, inheritance through bs4) is established by execution only; the model covers a region that carries the attributes itself. Known finding C12-dfxp-bare-text-node-layout is listed in known_findings.json."),

 "C11": dict(
   text=("Lean theorems: for EVERY element tree (any nesting of styled elements, text, breaks) the node list the DFXP/SAMI readers build has balanced, properly "
         "nested style nodes (reader_nodes_balanced, mutual structural induction over the tree); the SCC reader's italics are balanced for every instruction "
         "list (formatItalics_balanced, see C05); after a caption with flat balanced spans no span is left open in the DFXP writer whatever styles have a "
         "rendering (no_span_left_open, dfxpText_flag, dfxp_span_closed); WebVTT closing tags are the opening tags in reverse order for all eight style "
         "combinations (vtt_tags_mirror); for every caption whose style nodes are properly nested, whatever layouts split it into cues, every cue the WebVTT "
         "writer produces carries balanced, properly nested tags (vtt_cues_balanced: token machine proved to render to the writer model's strings, stack invariant); the SAMI reader's inline style: a span is italic / underlined / bold "
         "after _translate_style exactly when it was before or some piece of the style attribute is that declaration, wherever it stands, hence the same for any "
         "rearrangement of the declarations (sami_style_flags, sami_style_flags_any_order; model tied to the code by the driver op sami.inlinestyle). Execution: captions with 0-3 flat spans (single and combined styles, across breaks, adjacent, empty) through the "
         "DFXP/SAMI/WebVTT writers, both readers and all four DFXP<->SAMI directions; per-character (i,b,u) flags and tag balance are extracted by independent "
         "parsers; the writers' text functions are compared with the Lean models."),
   ref="§3 C11", technique="Lean 4 proof (mutual structural induction on trees, state invariants, case analysis) + per-character flag oracle + correspondence",
   note=NOTE_COMMON + "Equality of the per-character flags across conversions is established by execution, not by a theorem; bold/underline have no DFXP rendering in pycaption and are only required where the target carries them."),

 "C08": dict(
   text=("Lean theorems over all instants and all chains: the formats' time grids are nested (frames of milliseconds = frames, ...), each hop is idempotent, a "
         "chain of any length brings an instant to the coarsest grid on the chain and nothing more (chain_coarsest, induction over the chain), and a second "
         "pass is the identity (second_pass_identity), as is any number of further passes (chain_passes), a chain never moves an instant forward nor back by a frame or more - by less than a millisecond without MicroDVD - (chain_loss_bounded), keeps instants in order (chain_monotone; a sorted timeline stays sorted: chain_keeps_timeline_sorted), never brings together two instants a frame apart - a millisecond apart without MicroDVD - (chain_keeps_apart), depends only on which formats occur on it (chain_same_formats) and composes (chain_append) - so 'no drift' follows once each hop truncates to its grid, which C01/C02 establish per format. "
         "For SRT the hop itself is proved end to end on the writer and reader models (srt_hop: reading what the writer wrote returns one caption per written cue, "
         "in order, with the millisecond-truncated instants and the writer's text lines, for EVERY list of cues with visible text; srt_hop_instant ties it to coarsen), "
         "for WebVTT (vtt_hop: captions made of text lines of any characters come back with the same lines and the millisecond-truncated instants) "
         "and for MicroDVD (mdvd_hop: same lines, instants truncated to whole frames of 1/25 s); for DFXP the stamp the writers print for an instant is read back "
         "as that instant truncated to milliseconds (dfxp_hop_instant). "
         "Execution with pycaption's own readers: all 25 ordered pairs (125 triples in thorough) plus sampled longer chains, two passes, per-language "
         "(start, end, normalised text) compared after every hop with the sequentially coarsened original (SAMI: last cue = start + 4 s)."),
   ref="§3 C08", technique="Lean 4 proof (omega over nested grids, induction over the format chain) + end-to-end write/read theorems for SRT, WebVTT and MicroDVD (reader refinements, token-wise entity decoding) + exhaustive pair/triple execution with the real readers and writers",
   note=NOTE_COMMON + "for the other formats hop_obs (write then parse then read = coarsen) is composed from the C01-C04 models only by execution, not by a single theorem; languages are compared by code (order is C14's subject)."),
 "C14": dict(
   text=("Lean theorems: DFXP div language = own xml:lang, else the document's, else the configured default (dfxp_lang_fallback); the languages of a document are "
         "exactly the resolved div languages, each once, in first-appearance order (dfxp_languages_first_appearance, invariant over the ordered-dict fold); "
         "for sorted non-overlapping cues the SAMI SYNC blocks of a language come out in non-decreasing time order (primary_syncs_sorted, via C02's sync-plan "
         "theorem), and for ANY number of languages the blocks of the whole document stay in non-decreasing time order whatever the cues of the secondary "
         "languages are - each of their blocks is looked up or inserted in place (plan_sorted: the scan for the last earlier block, insertion keeps a sorted list "
         "sorted) - and every paragraph carrying a cue's text sits in a block that starts at that cue's start millisecond (paragraphs_in_own_block); "
         "after the SAMI writer's loop over the languages the stylesheet contains the rule 'lang: <code>;' of EVERY language, whatever the codes "
         "(stylesheet_declares_every_language), and a language whose paragraphs are labelled with the language code itself gets a class of that name "
         "(stylesheet_declares_label_class; the searched text is regenerated from the source; the pre-repair test is refuted by "
         "stylesheet_old_test_counterexample). The multi-language SAMI sync plan (lookup of an existing block, insertion after the last earlier / before the first later one) is the "
         "executable model these theorems are about, compared with the writer for 1-4 languages; DFXP/SAMI outputs are parsed independently (one div per language in order with its "
         "cues; paragraphs in the block of their start time) and read back; force=, WebVTT lang=, reader lang= and the div-language fallback incl. "
         "PYCAPTION_DEFAULT_LANG are exercised (sub-process)."),
   ref="§3 C14", technique="Lean 4 proof (ordered-dict invariant, sortedness induction) + sync-plan correspondence + independent parsers + sub-process configuration",
   note=NOTE_COMMON + "Sortedness of the multi-language plan is checked by execution only. Known finding C14-sami-language-prefix ('en' also collects 'en-US' paragraphs) is listed in known_findings.json."),

 "C09": dict(
   text=("Structure flags regenerated from the AST of the eight writer classes on every run (write() rebinds its argument to a deepcopy before any use other "
         "than pure getters / helper that does; no method stores into foreign objects; open_span is reset at entry) feed Lean theorems: every writer copies "
         "first or is read-only (writers_copy_or_pure) hence returns its argument unchanged whatever the body does, also when it raises (write_preserves_input); "
         "the document text of the DFXP / legacy / SAMI span machine does not depend on the flag left by earlier writes (write_resets_state) and, by induction over "
         "any history of writes on one writer object, the n-th output equals a fresh writer's (output_history_independent); the translator's scan of every module for "
         "caching decorators and weak-reference flyweight tables is empty (no_process_wide_memo). Execution: histories over all eight "
         "writers and option combinations with deep before/after snapshots, reused vs fresh writers, the model's open_span flag vs the real attribute, and "
         "byte comparison with pristine sub-processes under three hash seeds."),
   ref="§3 C09", technique="translator-derived structure flags + Lean 4 proof over the writer-state model + history execution with snapshots and sub-processes",
   note=NOTE_COMMON + "Hash-seed independence and byte identity are established by execution, not by theorem; the AST rules that decide 'copies first' / 'read-only' are part of the trusted translator; deepcopy is assumed to copy."),
 "C10": dict(
   text=("Flags regenerated from the source (Caption/CaptionSet constructors have no mutable-literal default; SCCReader.read re-assigns every state field of "
         "__init__ before processing lines; SAMIParser.langs is an ordered container) feed Lean theorems: reading with a reused SCCReader equals reading with a "
         "fresh one for every prior state and document (read_independent_of_history, over the full reader model), the style dictionaries of two results are "
         "distinct objects so an edit to one never shows in the other (fresh_results_isolated, allocation model), SAMI languages come in first-appearance "
         "order independently of any iteration-order permutation (languages_in_first_appearance_order); no function of the library memoises what it returns "
         "(no_process_wide_memo: the translator's scan for caching decorators / weak-reference tables over every module is empty), hence two constructed objects "
         "are distinct and an in-place edit of one never shows in the other (constructed_objects_distinct); no function anywhere in the library has a mutable "
         "object as a parameter default (no_shared_default_objects, translator scan). Execution: histories of reads/edits/writes over six "
         "formats with reader reuse; every read compared with pristine sub-processes under three hash seeds; all other results re-snapshotted after every edit."),
   ref="§3 C10", technique="translator-derived structure flags + Lean 4 proof over allocation / reader-state models + history execution with sub-processes",
   note=NOTE_COMMON + "CPython object identity is modelled by allocation ids; hash seeds by execution; the other readers keep no state between calls (checked by execution only)."),

 "C17": dict(
   text=("Lean theorems by kernel evaluation over the regenerated writer tables: every code the writer can emit for a character (basic, special, extended, the "
         "fallback) and every fixed control word has odd parity in each byte (writer_bytes_odd_parity, fixed_words_odd_parity); for rows 1-15 the writer's "
         "preamble is decoded by the READER's table as exactly that row at column 0 (writer_pac_decodes_to_row); bottom alignment keeps rows within 1-15 "
         "(rows_1_15); every character code of the writer's tables is decoded by the reader's tables as that character, and no two characters share a code "
         "(writer_chars_decode_back, writer_codes_injective); for EVERY line of basic characters the writer model emits, after the row's preambles, exactly "
         "the words of its characters two by two, a last single one completed by the filler byte (written_line_is_words), and the READER model - from any state, "
         "in any mode - takes these words for character words only and the text it holds grows by exactly the line's characters, in order "
         "(written_row_rereads: a word beginning with a basic code is in none of the command, preamble, special, extended, tab-offset tables; conservation from C16); "
         "a WHOLE caption as written (94ae 94ae 9420 9420, per row the preamble twice and the character words, 942c 942c 942f 942f) read between two captions "
         "executes every doubled control code once and adds exactly the caption's characters row by row (written_caption_rereads); the text the writer model "
         "produces for ANY caption set of basic characters is header + per caption `<time code>\\t<these words>` (write_is_file: the pre-roll pass never touches a "
         "code word) and the reader model run on it - splitlines, lower-casing, time-code / word splitting, doubling memory, every control code, final flush - "
         "holds at the end exactly the captions' characters in order (written_file_rereads), and stores - apart from the times - exactly ONE caption per input caption, in "
         "order, whose nodes are the caption's rows separated by break nodes and whose position is the first row's (written_file_restored, stored_caption_is_rows: "
         "end to end on the models of writer and reader, through store / formatItalics / toCaps as well); with the START TIMES: the reader computes from the time "
         "code the writer prints for an instant exactly floor(instant in frames) + k frames for the k-th word of the line (written_stamp_instant), every re-read caption "
         "starts at the instant of its End-Of-Caption word (written_file_times), and that is between two and three frames before the caption's start whenever the "
         "start leaves room for the transmission (shown_within_three_frames); for caption sets whose cues are spaced far enough apart to be transmitted "
         "(WellSpaced: words + 8 frames of room, each cue sent at least four frames after the previous one ends) the stored captions are exactly the input captions with "
         "start = shownAt and end = the instant of the clearing line, less than a frame before the caption's end (written_file_start_end: the pre-roll pass keeps every "
         "clearing line, nothing is joined, retimed or given the default four seconds). Executable model of _text_to_code, the pre-roll pass and _format_timestamp compared byte-for-byte with the writer's output; the output is "
         "checked structurally (header, hex words, parity, rows, 32 columns, breaks at spaces only, non-decreasing timecodes, visible within 3 frames) and "
         "re-read with the real SCCReader (same words, one caption per caption)."),
   ref="§3 C17", technique="Lean 4 proof (decide +kernel over generated tables, omega) + byte-level correspondence + structural oracle + re-read",
   note=NOTE_COMMON + "textwrap.fill is a library step (its contract is checked on the output, the model receives the laid-out lines); _format_timestamp's float floors are modelled exactly in rationals. 'Spaced far enough apart' = start_0 >= (W_0+8) frames and start_i - (W_i+8) frames >= end_{i-1} + 4 frames."),

 "C05": dict(
   text=("Lean model of the whole SCC reader state machine (doubling memory, position tracker, three buffers, pop-on queue, timing-correcting stash, "
         "italics passes, caption splitting) over code tables regenerated from scc/constants.py. Theorems: the italics passes yield, for EVERY instruction "
         "list, alternating on/off switches that start with on and are closed at the end (formatItalics_balanced, by invariants through the five passes), "
         "(row,col) maps linearly and strictly monotonically into the 10-90% x 5-95% safe area (layout_linear_safe, layout_strictly_monotone), and whole-table "
         "facts by kernel evaluation: every PAC addresses row 1-15 / column 0,4..28, all 15x8 addresses exist, tab offsets are 1..3, the code tables are "
         "pairwise disjoint; in EVERY reader state the second copy of a doubled control code / preamble / special character changes nothing but the doubling "
         "memory and the frame count (second_copy_dropped) and a control code sent twice after a character word acts exactly once "
         "(doubled_control_counts_once); a whole caption as the writer lays it out (1-15 non-empty rows of basic characters on consecutive screen rows) "
         "leaves in the queue ONE buffer with exactly one text node per row, break nodes between them, no style or repositioning node, every node at "
         "(row 16-n, column 0) (written_caption_exact: preamble -> position tracker -> add_chars, exactly). The model agrees with the implementation on exhaustive PAC x tab-offset x doubling and per-code programs and on random rich "
         "pop-on programs; the implementation is compared with a reference CEA-608 screen reading built from the standard's formulas."),
   ref="§3 C05", technique="Lean 4 proof (pass invariants, decide +kernel over generated tables, linarith) + state-machine correspondence + reference decoder oracle",
   note=NOTE_COMMON + "The refinement theorem decode_encode (model = reference reading for every program) is NOT proved: that link is the differential comparison. "
        "Well-formedness as calibrated in DESIGN §3 C05 (each addressed row shows a non-blank character; no identical special/extended codes adjacent in an un-doubled stream; rows fit 32 columns); simulate_roll_up is not modelled."),
 "C06": dict(
   text=("Same reader model, timing part, with exact rational times. Theorems: reading is rejected with the timing error iff some caption would be shown for "
         "0 < d < 0.05 s (flash_rejected_iff), a never-cleared final caption gets start+4 s and ended captions are untouched (tail4s_last, tail4s_keeps_ended), "
         "instants never go below zero for any offset (timeOf_floor_zero), the previous batch is closed at the new start exactly when it has no end or the gap is "
         "< 5 frames + 1 us (store_joins_iff); the instant of a code word is, for a time code h:m:s:ff (non-drop) or h:m:s;ff (drop) with fields of any width and k "
         "code words since the start of the line, (h*3600+m*60+s+(ff+k)/30) s - times 1001/1000 for non-drop-frame - minus the offset, floored at zero "
         "(instant_nondrop, instant_drop); EVERY word of a line, whatever it is, advances the frame count by exactly one (word_counts_one_frame, "
         "words_count_frames, by induction over the line) and the time recorded at the End-Of-Caption code is that instant (eoc_stamps_now); the frame duration 1001000/30 us is regenerated and pinned. Correspondence and an independent timing denotation "
         "(EOC instant, next EDM/EOC, joining, tail, flash) on programs with drop/non-drop timecodes, doubling, inline/separate/absent erase commands, filler gaps of 0-7 frames, offsets."
         " For written files in which every caption has its own clearing line and the captions are at least five frames apart, the stored captions start at the "
         "instant of their End-Of-Caption word and end at the instant of their clearing line, exactly (written_captions_start_and_end)."),
   ref="§3 C06", technique="Lean 4 proof over the reader model + differential correspondence + independent timing oracle",
   note=NOTE_COMMON + "Implementation times are floats: compared within 2^-10 us. At a gap of exactly five frames (within 1 us) either reading is accepted; an end instant floored to exactly 0 is outside the domain (collides with the 0 = 'no end yet' encoding)."),
 "C15": dict(
   text=("Lean theorem scan_raises_iff_long_line: for every reader end state, the line-length error is raised iff some stored caption has a line longer than 32 "
         "characters — independent of how captions share start keys and of their order (by an invariant over the dict-building fold, scan_collects_all; "
         "scan_keys_nodup); the error NAMES each offending line: for every stored caption and every line of it longer than 32 characters — whichever row, however many "
         "captions share the start time, in whatever order — the message contains that line followed by ' - Length n' (error_names_each_offending_line, via "
         "scan_holds_each and message_names), and the scan lists nothing but such lines (scan_holds_only). Correspondence and oracle on all three modes, captions of up to 12 adjacent rows, rows of 0-40 characters, every long/short pattern over up to four same-start captions."),
   ref="§3 C15", technique="Lean 4 proof (fold invariant over the insertion-ordered dict) + correspondence + exhaustive small patterns",
   note=NOTE_COMMON + "The key printed in the message is format_start() of a float time and may differ by one millisecond from the exact model (normalised in the comparison)."),
 "C16": dict(
   text=("Lean theorems: splitting a formatted instruction list into captions keeps every character exactly once and in order (toCaps_conserves_text), retiming "
         "(correct_last_timing / end back-filling) changes times only (setEnd_preserves_nodes, correctLast_only_times), _format_italics keeps the visible characters "
         "pass by pass, create_and_store appends exactly the buffer's visible characters to the stash (store_conserves_text) and the roll-up flush moves them "
         "there (rollUp_conserves_text); any sequence of character words and carriage returns extends the held text by exactly the characters sent "
         "(rollup_stream_conserves, induction over the model's word function); at a carriage return the rolled-out row is stored from the time of the previous "
         "carriage return to the instant of this one, which becomes the next row's start - each caption ends exactly when the next one begins "
         "(rollup_rows_contiguous, stored_captions_carry_times). The full roll-up / paint-on behaviour "
         "(mode switches, CR, RDC, implicit flush) is in the executable reader model, compared with the implementation and with the conservation / ordering / "
         "contiguity oracle on random programs (depths 2-4, row addresses, doubling, drop/non-drop, gaps)."),
   ref="§3 C16", technique="Lean 4 proof of the conservation lemmas + state-machine correspondence + conservation/contiguity oracle",
   note=NOTE_COMMON + "Conservation is proved for the italics normalisation (every pass), for create_and_store with all its retiming branches (store_conserves_text) and for the roll-up flush (rollUp_conserves_text); over the reader's real `word` function this is lifted to any sequence of basic-character words and carriage returns from any state (rollup_stream_conserves); preambles, mid-row codes, mode switches, special/extended characters and the time bookkeeping inside such streams are covered by execution only; simulate_roll_up=True is outside the model."),

 "C03": dict(
   text=("Lean theorems for every string: decoding saxutils-escaped text with the predefined XML references returns the string (unescape_escape / "
         "xmlUnescape_escape, fuel-bounded single-pass decoder), escaped text contains neither '<' nor '>' so it cannot open or close markup "
         "(escape_no_angle); the WebVTT writer's replacement chain (regenerated from _encode_illegal_characters and pinned) is undone by a single-pass WebVTT "
         "character-reference decoder for every string (vtt_text_roundtrip) and its output contains neither '-->' nor '<', so no text can end its cue or open a tag "
         "(vtt_text_cannot_end_cue); the cue text the SRT writer model lays out for ANY node list, cut at line feeds as the SRT block grammar does, is exactly the writer's lines and none of them is blank - no text, no run of breaks ends the block early (srt_cue_has_no_blank_line); for every caption of text lines the paragraph content written by the DFXP writer model is the escaped lines joined by the "
         "line-break markup, and cutting it there and decoding each piece gives the lines back - no text can create, hide or move a line break "
         "(dfxp_lines_roundtrip; the SAMI and legacy DFXP models write the same content, sami_legacy_same_content). Executable models of the text-serialising functions of all writers (DFXP/single/legacy _recreate_text with the open_span "
         "state, SAMI _recreate_text, WebVTT _group_cues_by_layout and escaping, whole SRT and MicroDVD documents) are compared with the implementation; "
         "every writer's complete output is parsed by an independent conformant parser (lxml strict XML, html.parser, harness WebVTT/SRT/MicroDVD grammars) "
         "and must yield exactly the caption's lines per cue, for adversarial texts with optional empty lines."),
   ref="§3 C03", technique="Lean 4 proof (escape/unescape round trip by induction) + model correspondence + independent-parser oracle on writer output",
   note=NOTE_COMMON + "The 'no empty line inside a cue' claims (SRT/WebVTT/MicroDVD document level) are not proved yet (model + correspondence + oracle only). "
        "prettify(formatter=None) and the conformance of lxml / html.parser are trusted. MicroDVD texts exclude '|' as the property says."),
 "C04": dict(
   text=("Lean model of the DFXP/SAMI text-leaf rule (the pinned pattern ^(?:[\\n\\r]+\\s*)?(.+) with its backtracking, plus the wrapped-line remainder) with "
         "theorems leaf_single_line (a one-line leaf is read verbatim, nothing decoded twice at this stage), leaf_indented (a leaf written on a line of its own - line feeds, "
         "ANY indentation, the text, a line feed and the closing tag's indentation, the shape bs4.prettify and most authors produce - is read as exactly the text), "
         "paragraph_lines_read / paragraph_lines_spellings (a <p> of any number of such leaves with <br/> between them is read as exactly these lines separated by "
         "break nodes) and splitWs_no_space; executable models of the "
         "SRT, MicroDVD and WebVTT readers including WebVTT _decode (voice/other span patterns as specialised matchers for the pinned regex texts, "
         "'&amp;' replaced last), with the theorem vtt_line_roundtrip: for EVERY line without white space at its ends the reader's _decode of the writer's escaped "
         "form is the line itself (the six whole-string replace passes are shown to act token by token on escaped text). All five readers are run on documents produced by independent serialisers from an abstract caption with spelling variants "
         "(literal/named/decimal/hex), source line wrapping and tag nestings, and must return the authored lines up to whitespace."),
   ref="§3 C04", technique="Lean 4 model + theorems for the leaf rule, pinned regex texts, differential correspondence, independent-serialiser oracle",
   note=NOTE_COMMON + "HTML/XML tokenisation and entity tables belong to html.parser/lxml (trusted, tied by execution); bs4's collapsing of blank-only strings is reproduced in the harness. "
        "Known finding C04-webvtt-charrefs (numeric / non-core named references in WebVTT cue text stay undecoded) is listed in known_findings.json. Tags whose name starts with c,i,b,u,v but is not a WebVTT tag are outside the generated domain."),

 "C02": dict(
   text=("Lean theorems: for EVERY instant below 24 h (integer or fractional microseconds) the shared hh:mm:ss.mmm formatter and the WebVTT [hh:]mm:ss.mmm "
         "formatter produce fixed-width fields with mm,ss<60 that an independent reader maps back to the instant truncated to milliseconds (format_denotes, "
         "vtt_timestamp_denotes, vtt_hours_omitted_iff, fields_in_range: all carries, proved with omega; two instants below 24 h get the same written stamp only inside one millisecond - format_injective, vtt_timestamp_injective - and the written millisecond truncates and is monotone - written_ms_truncates; an example shows 0 s and 24 h are written alike, i.e. the bound is needed); the SAMI writer's sync planning state machine for one "
         "language equals 'blank sync at the previous end ms unless the cue starts there, then the cue's sync, nothing after the last' for every cue list "
         "(sami_sync_plan, induction over the cue list with the last_time state), and for ANY number of languages and any cues the paragraphs of the written "
         "document with the start of their block are, as a multiset, exactly the per-language plans - nothing else is written, nothing is lost "
         "(sami_plan_entries, permutation invariant through block lookup / insertion / appending). Executable models of the SRT and MicroDVD writers (whole document), the stamp "
         "formatters, the MicroDVD frame truncation and the multi-language SAMI sync plan are compared with all seven writers' outputs, whose timing is also "
         "extracted by independent parsers and compared with the property's denotation."),
   ref="§3 C02", technique="Lean 4 proof (omega over div/mod carries; induction over the cue list) + differential correspondence on writer output",
   note=NOTE_COMMON + "timedelta and the :02d/:03d format specs are modelled for the argument ranges that occur (fields_in_range); MicroDVD's int(micro*25.0/10**6) is modelled as an exact rational floor "
        "(float evaluation trusted below 24 h); SRT same-timespan merging and WebVTT layout splitting are checked by execution, not proved. SAMI: only sorted, non-overlapping cue lists (SAMI cannot carry concurrent cues)."),

 "C01": dict(
   text=("Lean theorems for digit strings of ANY width: SRT hh:mm:ss[,fff] (srt_stamp_denotes, srt_stamp_no_fraction), WebVTT [h+:]mm:ss.fff with arbitrary "
         "trailing text (vtt_stamp_hms, vtt_stamp_ms), DFXP clock times plain / with a fraction of any length / with frames (dfxp_clock_*) and offset times with whole or decimal counts in h, m, s, ms, f (dfxp_offset_*), begin+end and begin+dur (dfxp_begin_*) denote exactly the "
         "stated instants (floor of an exact rational); multipliers, frame base and the regex texts are regenerated from /repo and pinned. Executable models of "
         "the complete readers' time handling (SRT block scan, WebVTT cue loop with time shift and validation, MicroDVD lines with fps header, DFXP begin/end/dur "
         "with all offset metrics, SAMI end back-filling with the 4 s tail) are compared with the implementation and with an independent denotation on "
         "documents rendered by the harness's own serialisers in every spelling, plus a malformed stream for the error branches."),
   ref="§3 C01", technique="Lean 4 proof (string induction: split/span lemmas) + pinned constants/patterns + differential correspondence on generated documents",
   note=NOTE_COMMON + "SAMI end back-filling is proved for every sync list (sami_backfill: next later sync of the language, else the 4 s tail) and the SRT reader for whole documents of any number of well-formed blocks (srt_doc_cues: one caption per block, in order, with the denoted instants; the hypotheses are met by srt_block_wf for hh:mm:ss,fff stamps of any width). The same is proved for WebVTT (vtt_doc_cues with vtt_block_wf: header, identifier lines, any number of blocks). and for MicroDVD (microdvd_doc_cues, microdvd_doc_cues_rate: one caption per line at floor(frame*10^6/rate) us, exactly). The DFXP document level (walking the XML tree down to the time attributes) and the SAMI HTML parse are not proved: those parts are model + correspondence + independent spec only. "
        "XML/HTML tokenisation (bs4/lxml/html.parser) is library code tied by correspondence. SRT blocks without any text line and digits outside ASCII are outside the modelled domain."),

 "C13": dict(
   text=("Lean theorems over exact rationals: Size.as_percentage_of returns exactly px*100/dim, em*16, pt*4/3, cells/32|15 for every value and dimension "
         "(relativize_exact), refuses with the relativization error when the dimension is missing (relativize_refuses), always yields a percentage "
         "(relativize_unit, relativized_origin_is_percent, relativized_extent_is_percent, relativized_padding_is_percent), a whole layout - origin, extent, padding, any of them absent - relativized with both dimensions never fails and every length becomes the percentage it denotes (relativize_layout_exact), an absolute horizontal origin without a width refuses the whole layout (relativize_layout_refuses_origin), relativizing a result again changes nothing, for a size and for a whole layout, with or without dimensions (relativize_size_idempotent, relativize_layout_idempotent); Layout.fit_to_screen: right edge <= 90 and bottom <= 95 for every fitted layout (fit_edges_le), missing extent reaches "
         "exactly the edges, fitting extent unchanged; the constants 16, 72/96, 100, 32x15, 90/95 are regenerated from geometry.py and pinned. "
         "Correspondence on the unit x value x axis x dimension grid and on random layouts through BaseWriter._relativize_and_fit_to_screen."),
   ref="§3 C13", technique="Lean 4 proof (rational arithmetic, linarith/ring) + translator-pinned constants + differential correspondence",
   note=NOTE_COMMON + "Python floats are modelled as exact rationals (tolerance 1e-11 relative in the comparison). Which layouts each writer passes through relativization is checked by execution on writer output, not by a theorem."),
 "C18": dict(
   text=("Lean theorems: the __eq__ chains of Size/Point/Stretch/Padding/Alignment/Layout are true exactly when all geometric components are equal "
         "(webvtt_positioning excluded), equal values hash equally for ANY component hash functions, Size.from_string accepts exactly the language "
         "digits+[.digits+]unit | 0 (both directions, for every string; the `$`-before-final-newline deviation of the pinned regex is visible in the statement), "
         "rejections are syntax errors, padding shorthands of 1-4 sizes expand in TTML order and print in TTML order; for EVERY non-negative size, parsing what "
         "__str__ printed gives the value rounded half-to-even to two decimals with the same unit (size_print_parse: whole numbers, stripped zeros and two-decimal "
         "spellings are each read back as printed), a value of at most two decimals is reproduced exactly (size_print_parse_exact) and printing is stable under "
         "re-parsing (size_print_idempotent); no function of the library memoises what it returns (no_process_wide_memo, translator scan). Correspondence: all ordered pairs of a "
         "per-type grid, every string of length <=4 (quick) / <=5 (thorough) over the 14-symbol alphabet, print/re-parse grid incl. 2-decimal ties, receiver snapshots."),
   ref="§3 C18", technique="Lean 4 proof (structural, string induction for the grammar) + pinned regex text + exhaustive short-string correspondence",
   note=NOTE_COMMON + "Real hash() is only checked for 'equal implies equal hash' by execution; float printing is compared against the exact-rational model fed with the float's exact binary value (round(value, 2) and the ':.2f' formatting of doubles are modelled by exact half-even rounding; the print/re-parse theorems are about that model, their agreement with the float code is established by execution on the value grid)."),

 "C19": dict(
   text=("Lean theorems for every caption list (any length, any rational times, opaque nodes): the accumulator loop of merge_concurrent_captions "
         "equals 'one caption per maximal run of equal (start,end), nodes joined by breaks' (merge_runs), a singleton run is unchanged "
         "(merge_others_untouched), merging twice = once (merge_idempotent), runs partition the input (runs_flatten), all captions of a run have the times of its first (runs_uniform) and neighbouring merged captions never "
         "have the same times, i.e. runs are maximal (merged_neighbours_differ), a list without concurrent neighbours is returned as it is (merge_no_concurrent), the merged list holds all input nodes plus exactly one break per joined caption (merge_node_count) and every input caption's nodes occur contiguous and in order in a merged caption of the same times (merge_keeps_each), the result is never longer than the input and empty only for an empty input (merge_length_le); adjust_caption_timing's loop "
         "equals map(t*skew+offset) then filter(start>=0) (adjust_affine_filter), and clause by clause: the surviving node lists are a subsequence of the input's (adjust_nodes_sublist), a caption survives iff its new start is not negative (adjust_mem_iff, adjust_length), durations scale by the skew whatever the offset (retime_duration), nothing is dropped for skew, offset, starts >= 0 (adjust_none_dropped), skew 1 / offset 0 is the identity (adjust_identity), a non-negative skew keeps captions sorted by start (adjust_keeps_sorted) and then drops a prefix only - if a caption survives every later-starting one does (adjust_drops_prefix). Correspondence: random multi-language sets with runs of every "
         "length/position, exact Fraction and float skews, offsets of both signs, node identity tracked by id()."),
   ref="§3 C19", technique="Lean 4 proof (induction over the caption list with the loop state as invariant) + differential correspondence",
   note=NOTE_COMMON + "Float skews are compared to the exact rational model within 1e-9 relative tolerance; merge theorems assume every caption has at least one node (enforced by Caption.__init__)."),

 "C20": dict(
   text=("Lean theorems for every string: detect_format never raises on non-empty input (detect_total, via splitlines_ne_nil), raises the "
         "no-captions error on the empty string, returns a reader only if its own detect accepts and all earlier readers in the documented order "
         "reject (detect_first_accepting), returns None only if all six reject (detect_none_iff); reader order, markers, SCC header and the MicroDVD "
         "pattern are regenerated from /repo and pinned. Own output: for the three writers modelled as whole documents the third clause is a theorem - "
         "the SRT writer's document for ANY cue list with visible text whose lines carry no other format's marker is detected as SRT (detect_own_srt: a marker "
         "cannot arise across line boundaries or from index/timing lines), the WebVTT writer's document for ANY text lines is detected as WebVTT (detect_own_vtt: "
         "'<' is escaped, so '</tt>' cannot occur), the MicroDVD writer's document for lines without '</tt>' is detected as MicroDVD (detect_own_mdvd), for these four writers detection and reading are stated together - the written document is detected as the writer's format AND the reader model of that format reads it to the written cues (own_srt_detected_and_read, own_vtt_detected_and_read, own_mdvd_detected_and_read, own_scc_detected_and_read, on top of C08's hops and C17's written_file_restored) -, the SCC writer's document for ANY caption set of basic characters is detected as SCC (detect_own_scc: its "
         "characters are those of the header, time codes, hex words, tabs, blanks and line feeds - no '<', no 'W', no leading '{', a first line that is no number); the "
         "writer models are tied to the writers document by document in this check. Correspondence: every word of length <=3 (quick) / <=4 (thorough) over 27 symbols, random "
         "longer words, every truncation of writer outputs, and all six writers' own outputs, evaluated on the implementation, the Lean model and the spec."),
   ref="§3 C20", technique="Lean 4 proof over an executable model + translator-pinned constants + differential correspondence (native driver)",
   note=NOTE_COMMON + "Modelled, not verified: Python's str.lower() beyond ASCII (two exotic code points generated), str.splitlines/isdigit classes (generated from the interpreter). "
        "'own output is detected' is a theorem for SRT, WebVTT and MicroDVD (captions made of text lines, one language); for DFXP, SAMI and SCC, for styled/positioned "
        "captions and for 'the detected reader reads the document' it is established by execution on writer outputs (C08's srt_hop / vtt_hop / mdvd_hop prove readability for the three)."),
}

def main():
    checks = []
    for pid in ALL:
        if pid not in CLAIMED: continue
        c = CLAIMED[pid]
        checks.append({
            "property_id": pid,
            "quick_cmd": "./check %s --tier quick" % pid,
            "thorough_cmd": "./check %s --tier thorough" % pid,
            "evidence_file": "evidence/%s.json" % pid,
            "replay_cmd_template": "./check %s --replay {path}" % pid,
            "engine": "pcverif-lean",
            "level_claimed": {"category": "proof", "text": c["text"], "design_ref": c["ref"]},
            "level_note": c["note"],
            "technique": c["technique"],
        })
    hooks_commits = []
    m = {
        "version": 1,
        "setup_cmd": "./setup.sh",
        "hooks": {"guard": "PYCAPTION_VERIF", "enable": "none needed: every observable is reachable from the public API / object attributes; ./check sets PYCAPTION_VERIF=1 for uniformity",
                  "baseline_off_cmd": "cd /repo && /venv/bin/python -m pytest -ra -q -p no:cacheprovider --timeout=900 --continue-on-collection-errors",
                  "source_commits": hooks_commits, "add_only": True},
        "engines": [{"name": "pcverif-lean", "path": "lean/", "serves_properties": sorted(CLAIMED),
                     "kind_free_text": "Lean 4 lake project PcVerif: executable models (Model/), specs (Spec/), property theorems (Props/), native line-protocol driver (Driver.lean); Python harness harness/pcv drives implementation, model and spec"}],
        "checks": checks,
        "notes": "See DESIGN.md. Generated Lean definitions are rebuilt from /repo by translate/gen_lean.py at the start of every check.",
        "not_applicable": [{"property_id": p, "reason": "check not built yet in this session (work in progress, see DESIGN.md §8 order of construction)"}
                           for p in ALL if p not in CLAIMED],
    }
    json.dump(m, open(os.path.join(HERE, "MANIFEST.json"), "w"), indent=1, ensure_ascii=False)
    try:
        import jsonschema
        jsonschema.validate(m, json.load(open("/root/.vp/MANIFEST.schema.json")))
        print("MANIFEST valid;", len(checks), "checks")
    except ImportError:
        print("written (jsonschema not available to validate)")

main()
