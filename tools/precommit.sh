#!/bin/sh
# refresh generated files + baseline from the (clean) /repo tree and validate the manifest
set -e
cd "$(dirname "$0")/.."
test -z "$(git -C /repo status --porcelain)" || { echo "/repo is dirty"; exit 1; }
/venv/bin/python translate/gen_lean.py
cp lean/PcVerif/Generated/*.lean lean/GeneratedBaseline/
python3-vt tools/mk_manifest.py
