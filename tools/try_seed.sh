#!/bin/bash
# usage: tools/try_seed.sh <patch.diff> <Cxx> [Cyy ...]   — apply a seeded change to /repo, run the checks, undo it
cd "$(dirname "$0")/.."
patch="$1"; shift
test -z "$(git -C /repo status --porcelain)" || { echo "/repo is dirty"; exit 2; }
git -C /repo apply "$patch" || { echo "patch does not apply"; exit 2; }
trap 'git -C /repo checkout -- . ; /venv/bin/python translate/gen_lean.py >/dev/null' EXIT
for id in "$@"; do
  out=$(VERIF_SEED=${VERIF_SEED:-0} ./check "$id" --tier ${TIER:-quick} 2>&1 | grep -v KNOWN | tail -2 | tr '\n' ' ')
  echo "$id: $out"
done
