#!/bin/bash
# usage: SEEDS=/tmp/seeds2 tools/eval_seed2.sh <Cxx> <k> [check ids ...]   (same as eval_seed.sh, other seed directory)
cd "$(dirname "$0")/.."
id=$1; k=$2; shift 2
checks=${@:-$id}
wt=/tmp/wt/$id; sd=${SEEDS:-/tmp/seeds2}/$id
git -C $wt checkout -q -- . 2>/dev/null
base=$(cd $wt && PYTHONPATH=$wt /venv/bin/python $sd/demo$k.py >/dev/null 2>&1; echo $?)
git -C $wt apply $sd/mutant$k.diff || { echo "$id m$k: patch does not apply in worktree"; exit 2; }
tests=$(cd $wt && /venv/bin/python -m pytest -q -p no:cacheprovider --continue-on-collection-errors 2>&1 | tail -1 | grep -o "[0-9]* passed")
mut=$(cd $wt && PYTHONPATH=$wt /venv/bin/python $sd/demo$k.py >/dev/null 2>&1; echo $?)
git -C $wt checkout -q -- .
echo "$id m$k: tests='$tests' demo_clean_exit=$base demo_mutant_exit=$mut"
tools/try_seed.sh $sd/mutant$k.diff $checks
